// C14 (a): before a client's address is validated, a server sends at most 3x the bytes it
// received, plus at most the one datagram that was already permitted when the limit was reached.
//
// Engine: model-based state machine over ackhandler.NewSentPacketHandler(server perspective).
// The machine plays the part of connection.go's run loop: datagram arrivals are reported with
// ReceivedBytes (+ per-packet processing: ReceivedAck / ReceivedPacket / DropPackets in the order
// handleOnePacket -> handleUnpackedLongHeaderPacket uses), the loss-detection timer is serviced the
// way Conn.run does (GetLossDetectionTimeout due => OnLossDetectionTimeout(now)), and every datagram
// the "server" wants to send is preceded by a SendMode(now) consultation exactly as
// Conn.triggerSending does it before the handshake is confirmed: ONE consultation per datagram
// (coalesced packet), followed by one SentPacket call per QUIC packet inside the datagram.
//
// The reference model is a plain byte ledger (R received, S sent, validated flag) that never looks
// into the handler.
package c14

import (
	"fmt"
	"testing"
	"time"

	"pgregory.net/rapid"

	"github.com/refraction-networking/uquic/internal/ackhandler"
	"github.com/refraction-networking/uquic/internal/monotime"
	"github.com/refraction-networking/uquic/internal/protocol"
	"github.com/refraction-networking/uquic/internal/utils"
	"github.com/refraction-networking/uquic/internal/wire"
	"github.com/refraction-networking/uquic/verif/vf"
)

func TestMain(m *testing.M) { vf.Main(m) }

// TxPart is one QUIC packet inside a datagram the server wants to send.
type TxPart struct {
	L  string `json:"l"`            // "i" Initial, "h" Handshake, "1" 1-RTT
	Sz int    `json:"sz"`           // bytes; 0/-1/-2: fill the amplification budget exactly / one short / one over
	AE bool   `json:"ae,omitempty"` // ack-eliciting
}

// Dgram is one UDP datagram (a coalesced packet) the server wants to send.
type Dgram struct {
	P []TxPart `json:"p"`
}

// RxPart is one QUIC packet inside an arriving datagram.
type RxPart struct {
	L   string     `json:"l"`             // "i" Initial, "h" Handshake, "z" 0-RTT, "g" undecryptable / garbage
	Ack [][2]int64 `json:"ack,omitempty"` // ACK ranges [smallest,largest], descending, within the numbers sent so far
}

type Op struct {
	Kind    string   `json:"k"`            // rx | app | tick | alarm
	DtUs    int64    `json:"dt,omitempty"` // clock advance before the op (microseconds)
	Size    int      `json:"n,omitempty"`  // rx: datagram size
	Parts   []RxPart `json:"rp,omitempty"` // rx: packets in the datagram
	Want    []Dgram  `json:"w,omitempty"`  // datagrams the server additionally wants to send from now on
	Probe   []TxPart `json:"pr,omitempty"` // packets used as PTO probes if SendMode asks for them during this op
	DelayUs int64    `json:"sd,omitempty"` // time between processing the event and the send attempt
}

type Params struct {
	Validated bool `json:"validated"` // control group: address validated by a token at construction
	MaxDgram  int  `json:"max_dgram"`
}

type nopHandler struct{}

func (nopHandler) OnAcked(wire.Frame) {}
func (nopHandler) OnLost(wire.Frame)  {}

type ampMachine struct {
	p   Params
	h   ackhandler.SentPacketHandler
	now int64 // ns

	// byte ledger (reference model)
	R, S      int64
	validated bool

	initialDropped bool
	rxInitial      int      // Initial packets processed (server has handshake/1-RTT write keys afterwards)
	sentAEInitial  int      // ack-eliciting Initial packets sent (a genuine client Handshake packet needs the ServerHello)
	largestSent    [2]int64 // per space i,h
	queue          []Dgram  // what the server still wants to send
	sig            []byte   // history signature for distinctness
	cls            map[string]bool
	blockedPending bool // currently blocked by the limit with something to send
}

func newAmpMachine(p Params) vf.Machine[Op] {
	m := &ampMachine{p: p, now: int64(time.Hour), validated: p.Validated, cls: map[string]bool{}}
	m.largestSent = [2]int64{-1, -1}
	m.h = ackhandler.NewSentPacketHandler(
		0,
		protocol.ByteCount(p.MaxDgram),
		utils.NewRTTStats(),
		&utils.ConnectionStats{},
		p.Validated,
		false,
		func(protocol.PacketNumber) {},
		protocol.PerspectiveServer,
		nil,
		utils.DefaultLogger,
	)
	return m
}

func (m *ampMachine) t() monotime.Time { return monotime.Time(m.now) }

func lvl(l string) protocol.EncryptionLevel {
	switch l {
	case "i":
		return protocol.EncryptionInitial
	case "h":
		return protocol.EncryptionHandshake
	case "z":
		return protocol.Encryption0RTT
	default:
		return protocol.Encryption1RTT
	}
}

func (m *ampMachine) limited() bool { return !m.validated && m.S >= 3*m.R }

// ---------------------------------------------------------------------------------------------
// generator

func genSize(t *rapid.T, maxd int, single bool) int {
	k := rapid.IntRange(0, 19).Draw(t, "szmode")
	switch {
	case k < 7:
		return maxd
	case k < 9:
		return 1200
	case k < 12 && single:
		return 0 // fill exactly
	case k == 12 && single:
		return -1
	case k == 13 && single:
		return -2
	case k < 17:
		return rapid.IntRange(20, maxd).Draw(t, "sz")
	default:
		return rapid.IntRange(20, 120).Draw(t, "szsmall")
	}
}

func genDgram(t *rapid.T, maxd int) Dgram {
	shape := rapid.IntRange(0, 19).Draw(t, "shape")
	var ls []string
	ae := true
	switch {
	case shape < 5:
		ls = []string{"i"}
	case shape < 9:
		ls = []string{"i", "h"}
	case shape < 13:
		ls = []string{"h"}
	case shape < 15:
		ls, ae = []string{"i"}, false
	case shape == 15:
		ls, ae = []string{"h"}, false
	case shape < 18:
		ls = []string{"i", "h", "1"}
	case shape == 18:
		ls = []string{"h", "1"}
	default:
		ls = []string{"1"}
	}
	if len(ls) == 1 {
		sz := genSize(t, maxd, true)
		if !ae && sz > 0 {
			sz = rapid.IntRange(25, 90).Draw(t, "acksz")
		}
		return Dgram{P: []TxPart{{L: ls[0], Sz: sz, AE: ae}}}
	}
	// split a total over the parts
	total := maxd
	if rapid.IntRange(0, 3).Draw(t, "short") == 0 {
		total = rapid.IntRange(20*len(ls), maxd).Draw(t, "total")
	}
	d := Dgram{}
	rest := total
	for i, l := range ls {
		left := len(ls) - 1 - i
		sz := rest
		if left > 0 {
			sz = rapid.IntRange(20, rest-20*left).Draw(t, "part")
		}
		rest -= sz
		pae := true
		if i == 0 && rapid.IntRange(0, 4).Draw(t, "firstack") == 0 {
			pae = false
		}
		d.P = append(d.P, TxPart{L: l, Sz: sz, AE: pae})
	}
	return d
}

func (m *ampMachine) genAck(t *rapid.T, space int) [][2]int64 {
	ls := m.largestSent[space]
	if ls < 0 || rapid.IntRange(0, 2).Draw(t, "noack") == 0 {
		return nil
	}
	hi := rapid.Int64Range(0, ls).Draw(t, "ackhi")
	if rapid.IntRange(0, 2).Draw(t, "acklargest") != 0 {
		hi = ls
	}
	lo := rapid.Int64Range(0, hi).Draw(t, "acklo")
	out := [][2]int64{{lo, hi}}
	if lo >= 2 && rapid.Bool().Draw(t, "ack2") {
		hi2 := rapid.Int64Range(0, lo-2).Draw(t, "ackhi2")
		lo2 := rapid.Int64Range(0, hi2).Draw(t, "acklo2")
		out = append(out, [2]int64{lo2, hi2})
	}
	return out
}

func (m *ampMachine) Gen(t *rapid.T) Op {
	maxd := m.p.MaxDgram
	kind := rapid.SampledFrom([]string{"rx", "rx", "rx", "rx", "rx", "app", "app", "tick", "tick", "alarm", "alarm"}).Draw(t, "kind")
	if m.R == 0 {
		kind = "rx" // a server connection is created by the first datagram
	}
	op := Op{Kind: kind}
	op.DtUs = rapid.SampledFrom([]int64{0, 0, 0, 1, 100, 1000, 10_000, 50_000, 200_000, 1_000_000}).Draw(t, "dt")
	op.DelayUs = rapid.SampledFrom([]int64{0, 0, 0, 1, 50, 2000}).Draw(t, "sd")
	switch kind {
	case "rx":
		if m.R == 0 {
			// the datagram that creates a connection carries an Initial and is at least 1200 bytes (server.go:500)
			op.Size = rapid.SampledFrom([]int{1200, 1200, 1200, 1252, 1280, 1350, 1452}).Draw(t, "n0")
			op.Parts = []RxPart{{L: "i"}}
			switch rapid.IntRange(0, 5).Draw(t, "first") {
			case 0:
				op.Parts = append(op.Parts, RxPart{L: "z"})
			case 1:
				op.Parts = append(op.Parts, RxPart{L: "g"})
			}
			break
		}
		switch rapid.IntRange(0, 9).Draw(t, "nmode") {
		case 0, 1, 2:
			op.Size = rapid.IntRange(1, 60).Draw(t, "ntiny")
		case 3, 4:
			op.Size = rapid.IntRange(61, 1199).Draw(t, "nmid")
		case 5:
			op.Size = rapid.IntRange(1200, 1452).Draw(t, "nbig")
		default:
			op.Size = rapid.SampledFrom([]int{1200, 1200, 1252, 1280, 1452}).Draw(t, "nstd")
		}
		var ls []string
		switch c := rapid.IntRange(0, 19).Draw(t, "content"); {
		case c < 7:
			ls = []string{"g"}
		case c < 12:
			ls = []string{"i"}
		case c < 14:
			ls = []string{"h"}
		case c == 14:
			ls = []string{"i", "h"}
		case c == 15:
			ls = []string{"z"}
		case c == 16:
			ls = []string{"i", "z"}
		case c == 17:
			ls = []string{"i", "g"}
		case c == 18:
			ls = []string{"g", "g", "g"}
		default:
			ls = []string{"i", "i"}
		}
		if op.Size < 25*len(ls) {
			ls = []string{"g"} // too small to hold that many packets
		}
		for _, l := range ls {
			rp := RxPart{L: l}
			switch l {
			case "i":
				rp.Ack = m.genAck(t, 0)
			case "h":
				rp.Ack = m.genAck(t, 1)
			}
			op.Parts = append(op.Parts, rp)
		}
	case "tick", "alarm":
	}
	nw := rapid.SampledFrom([]int{0, 0, 0, 1, 1, 2, 3, 5, 8}).Draw(t, "nwant")
	if kind == "app" {
		nw = rapid.IntRange(1, 10).Draw(t, "nwant-app")
	}
	for i := 0; i < nw; i++ {
		op.Want = append(op.Want, genDgram(t, maxd))
	}
	if rapid.IntRange(0, 2).Draw(t, "probes") != 0 {
		n := rapid.IntRange(1, 3).Draw(t, "nprobe")
		for i := 0; i < n; i++ {
			pae := rapid.IntRange(0, 7).Draw(t, "probe-ae") != 0
			sz := genSize(t, maxd, true)
			if !pae && sz > 0 {
				sz = rapid.IntRange(25, 90).Draw(t, "probe-acksz")
			}
			op.Probe = append(op.Probe, TxPart{Sz: sz, AE: pae})
		}
	}
	return op
}

// ---------------------------------------------------------------------------------------------
// implementation driver + model

func (m *ampMachine) mark(c string) { m.cls[c] = true }

func (m *ampMachine) ackFrame(rs [][2]int64) *wire.AckFrame {
	f := &wire.AckFrame{}
	for _, r := range rs {
		f.AckRanges = append(f.AckRanges, wire.AckRange{Smallest: protocol.PacketNumber(r[0]), Largest: protocol.PacketNumber(r[1])})
	}
	return f
}

func (m *ampMachine) rx(op Op) *vf.Verdict {
	// connection.go handleOnePacket: bytes of the whole datagram are credited first, whatever it contains
	m.h.ReceivedBytes(protocol.ByteCount(op.Size), m.t())
	m.R += int64(op.Size)
	if op.Size < 40 {
		m.mark("rx-tiny")
	}
	if len(op.Parts) > 1 {
		m.mark("rx-coalesced")
	}
	for _, rp := range op.Parts {
		switch rp.L {
		case "i":
			if m.initialDropped {
				continue // keys are gone: the packet is dropped as undecryptable
			}
			if len(rp.Ack) > 0 {
				if rp.Ack[0][1] > m.largestSent[0] {
					continue // (replay of a shrunk history) never acknowledge unsent packets
				}
				if _, err := m.h.ReceivedAck(m.ackFrame(rp.Ack), protocol.EncryptionInitial, m.t()); err != nil {
					return vf.Bad("C14/harness/ack-error", "ReceivedAck(Initial, %v) with largest sent %d: %v", rp.Ack, m.largestSent[0], err)
				}
				m.mark("rx-ack-initial")
			}
			m.h.ReceivedPacket(protocol.EncryptionInitial, m.t())
			m.rxInitial++
		case "h":
			// A genuine client Handshake packet can only exist after the client saw the ServerHello,
			// i.e. after the server sent an ack-eliciting Initial packet. Anything else carrying the
			// Handshake type is undecryptable for the server and is dropped.
			if m.sentAEInitial == 0 {
				m.mark("rx-handshake-forged")
				continue
			}
			if !m.initialDropped {
				// handleUnpackedLongHeaderPacket: the first Handshake packet drops the Initial keys
				// before its frames are handled
				m.h.DropPackets(protocol.EncryptionInitial, m.t())
				m.initialDropped = true
			}
			if len(rp.Ack) > 0 && rp.Ack[0][1] <= m.largestSent[1] {
				if _, err := m.h.ReceivedAck(m.ackFrame(rp.Ack), protocol.EncryptionHandshake, m.t()); err != nil {
					return vf.Bad("C14/harness/ack-error", "ReceivedAck(Handshake, %v) with largest sent %d: %v", rp.Ack, m.largestSent[1], err)
				}
				m.mark("rx-ack-handshake")
			}
			m.h.ReceivedPacket(protocol.EncryptionHandshake, m.t())
			if !m.validated {
				m.mark("validated-by-handshake")
			}
			m.validated = true // RFC 9000 8.1: a packet protected with Handshake keys proves the address
		case "z":
			if m.rxInitial == 0 {
				continue // no 0-RTT keys before the ClientHello
			}
			m.h.ReceivedPacket(protocol.Encryption0RTT, m.t())
			m.mark("rx-0rtt")
		default:
			m.mark("rx-garbage")
		}
	}
	return nil
}

// sendDgram registers one datagram with the handler the way sendPackedCoalescedPacket does: one
// SentPacket per contained packet, without consulting SendMode in between.
func (m *ampMachine) sendDgram(d Dgram, why string) (sent int64, v *vf.Verdict) {
	sBefore, rBefore := m.S, m.R
	np := 0
	for _, p := range d.P {
		switch p.L {
		case "i":
			if m.initialDropped {
				continue
			}
		case "h", "1":
			if m.rxInitial == 0 {
				continue // no Handshake / 1-RTT write keys before the ClientHello was processed
			}
		}
		sz := int64(p.Sz)
		if p.Sz <= 0 {
			sz = 3*m.R - m.S + int64(p.Sz) // 0: exactly to the limit, -1: one byte short of it, -2: one byte over
			if p.Sz == -2 {
				sz = 3*m.R - m.S + 1
			}
			if sz < 20 {
				sz = 20
			}
			if sz > int64(m.p.MaxDgram) {
				sz = int64(m.p.MaxDgram)
			}
		}
		if sent+sz > int64(m.p.MaxDgram) {
			break
		}
		l := lvl(p.L)
		pn := m.h.PopPacketNumber(l)
		var frames []ackhandler.Frame
		largestAcked := protocol.InvalidPacketNumber
		if p.AE {
			frames = []ackhandler.Frame{{Frame: &wire.PingFrame{}, Handler: nopHandler{}}}
		} else {
			largestAcked = 0
		}
		m.h.SentPacket(m.t(), pn, largestAcked, nil, frames, l, protocol.ECNNon, protocol.ByteCount(sz), false, false)
		switch p.L {
		case "i":
			m.largestSent[0] = int64(pn)
			if p.AE {
				m.sentAEInitial++
			}
		case "h":
			m.largestSent[1] = int64(pn)
		}
		sent += sz
		np++
	}
	if np == 0 {
		return 0, nil
	}
	m.S += sent
	if np > 1 {
		m.mark("tx-coalesced")
	}
	// ---- the property, stated on the ledger alone ----
	if !m.validated && sBefore >= 3*rBefore {
		return sent, vf.Bad("C14/amplification/sent-beyond-limit",
			"unvalidated client: a %d-byte datagram (%s) was permitted although %d bytes had already been sent for %d received (limit 3x = %d); total sent now %d",
			sent, why, sBefore, rBefore, 3*rBefore, m.S)
	}
	if !m.validated {
		switch {
		case m.S == 3*m.R:
			m.mark("hit-limit-exactly")
		case m.S > 3*m.R:
			m.mark("overshoot-by-permitted-packet")
		}
	}
	return sent, nil
}

// sendLoop is Conn.run's "service the loss timer, then triggerSending" with the server's wishes
// taken from m.queue.
func (m *ampMachine) sendLoop(op Op) *vf.Verdict {
	probeIdx := 0
	skipTimer := false
	for iter := 0; iter < 48; iter++ {
		if !skipTimer {
			if to := m.h.GetLossDetectionTimeout(); !to.IsZero() && !to.After(m.t()) {
				if m.limited() {
					m.mark("timer-fired-while-limited")
				}
				if err := m.h.OnLossDetectionTimeout(m.t()); err != nil {
					return vf.Bad("C14/harness/loss-timeout-error", "OnLossDetectionTimeout: %v", err)
				}
			}
		}
		skipTimer = false
		mode := m.h.SendMode(m.t())
		if !m.limited() && m.validated && mode == ackhandler.SendNone {
			if m.p.Validated {
				return vf.Bad("C14/amplification/limited-despite-validated-token",
					"handler constructed with clientAddressValidated=true reports SendNone (sent %d, received %d)", m.S, m.R)
			}
			return vf.Bad("C14/amplification/limited-after-validation",
				"a Handshake packet was received but SendMode is still SendNone (sent %d, received %d)", m.S, m.R)
		}
		switch mode {
		case ackhandler.SendNone:
			if m.limited() {
				if len(m.queue) > 0 {
					if !m.blockedPending {
						m.mark("blocked-with-data")
					}
					m.blockedPending = true
				}
			} else if !m.validated {
				m.mark("blocked-below-limit")
			}
			return nil
		case ackhandler.SendAny:
			if m.blockedPending {
				m.blockedPending = false
				m.mark("unblocked")
			}
			if len(m.queue) == 0 {
				return nil
			}
			d := m.queue[0]
			m.queue = m.queue[1:]
			if _, v := m.sendDgram(d, "SendAny"); v != nil {
				return v
			}
		case ackhandler.SendAck, ackhandler.SendPacingLimited:
			// maybeSendAckOnlyPacket: at most one packet that carries only an ACK
			idx := -1
			for i, d := range m.queue {
				if len(d.P) > 0 && !d.P[0].AE {
					idx = i
					break
				}
			}
			if idx < 0 {
				return nil
			}
			d := Dgram{P: m.queue[idx].P[:1]}
			m.queue = append(m.queue[:idx:idx], m.queue[idx+1:]...)
			if n, v := m.sendDgram(d, mode.String()); v != nil {
				return v
			} else if n > 0 {
				m.mark("tx-ackonly-mode")
			}
			return nil
		case ackhandler.SendPTOInitial, ackhandler.SendPTOHandshake, ackhandler.SendPTOAppData:
			l := map[ackhandler.SendMode]string{ackhandler.SendPTOInitial: "i", ackhandler.SendPTOHandshake: "h", ackhandler.SendPTOAppData: "1"}[mode]
			// sendProbePacket: queue the oldest outstanding packet for retransmission, then pack one packet
			m.h.QueueProbePacket(lvl(l))
			p := TxPart{L: l, Sz: m.p.MaxDgram, AE: true}
			if probeIdx < len(op.Probe) {
				p = op.Probe[probeIdx]
				p.L = l
			}
			probeIdx++
			n, v := m.sendDgram(Dgram{P: []TxPart{p}}, mode.String())
			if v != nil {
				return v
			}
			if n == 0 {
				return vf.Bad("C14/harness/probe-not-sendable", "PTO mode %s but the space is not usable in the model", mode)
			}
			m.mark("tx-pto-probe")
			if m.blockedPending {
				m.blockedPending = false
				m.mark("unblocked")
			}
			skipTimer = true // triggerSending recurses without going through the run loop
		default:
			return vf.Bad("C14/harness/unknown-mode", "SendMode returned %d", mode)
		}
	}
	return nil
}

func (m *ampMachine) Apply(op Op) *vf.Verdict {
	m.now += op.DtUs * 1000
	m.sig = append(m.sig, op.Kind[0], byte(op.Size), byte(op.Size>>8), byte(len(op.Parts)), byte(len(op.Want)))
	for _, rp := range op.Parts {
		m.sig = append(m.sig, rp.L[0])
	}
	for _, d := range op.Want {
		for _, p := range d.P {
			m.sig = append(m.sig, p.L[0], byte(p.Sz), byte(p.Sz>>8))
		}
	}
	switch op.Kind {
	case "rx":
		if v := m.rx(op); v != nil {
			return v
		}
	case "alarm":
		if to := m.h.GetLossDetectionTimeout(); !to.IsZero() && int64(to) > m.now {
			m.now = int64(to)
			m.mark("alarm")
		}
	}
	m.queue = append(m.queue, op.Want...)
	if len(m.queue) > 64 {
		m.queue = m.queue[:64]
	}
	m.now += op.DelayUs * 1000
	return m.sendLoop(op)
}

func (m *ampMachine) Finish(u *vf.Unit) *vf.Verdict {
	// the bound at the end of the history, stated once more on the totals only: at most one
	// full-size datagram beyond three times the received bytes
	if !m.validated && m.S > 3*m.R+int64(m.p.MaxDgram)-1 {
		return vf.Bad("C14/amplification/sent-beyond-limit", "total sent %d exceeds 3 x %d received by more than one datagram", m.S, m.R)
	}
	if m.validated {
		if mode := m.h.SendMode(m.t()); mode == ackhandler.SendNone {
			sig := "C14/amplification/limited-after-validation"
			if m.p.Validated {
				sig = "C14/amplification/limited-despite-validated-token"
			}
			return vf.Bad(sig, "validated address but SendMode is SendNone at the end (sent %d, received %d)", m.S, m.R)
		}
	}
	if m.p.Validated {
		u.Class("control-validated")
		if m.S > 3*m.R {
			u.Class("control-sent-beyond-3x")
		}
	} else {
		u.Class("unvalidated")
	}
	for c := range m.cls {
		u.Class(c)
	}
	// non-trivial: the server wanted to send more than the limit allowed at some prefix
	if m.cls["blocked-with-data"] {
		u.NonTrivial(m.sig, fmt.Sprint(m.p.MaxDgram))
	}
	return nil
}

func TestAmplificationModel(t *testing.T) {
	vf.RunMachine(t, "amp-model", 60, func(t *rapid.T) Params {
		return Params{
			Validated: rapid.IntRange(0, 5).Draw(t, "validated") == 0,
			MaxDgram:  rapid.SampledFrom([]int{1200, 1252, 1280, 1280, 1350, 1452}).Draw(t, "maxdgram"),
		}
	}, newAmpMachine)
}

// TestAmplificationExhaustive runs every history "first datagram, then up to L further events" over a
// small alphabet of events (full-size Initial arrival, 1-byte garbage arrival, 400-byte Initial carrying an
// ACK for everything sent, Handshake arrival, the server wanting a full-size Initial / a coalesced
// Initial+Handshake datagram plus one that lands exactly on the limit / three ACK-only packets, loss-timer
// expiry) through the same machine and oracle as amp-model.
func TestAmplificationExhaustive(t *testing.T) {
	u := vf.U("amp-exhaustive")
	if vf.ReplayMode() {
		t.Skip("failures of this unit are reported in amp-model format")
	}
	L := 6
	if vf.Thorough() {
		L = 8
	}
	const A = 8
	si, sk := vf.Shard()
	mkOp := func(sym int, m *ampMachine) Op {
		switch sym {
		case 0:
			return Op{Kind: "rx", Size: 1200, Parts: []RxPart{{L: "i"}}}
		case 1:
			return Op{Kind: "rx", Size: 1, Parts: []RxPart{{L: "g"}}}
		case 2:
			op := Op{Kind: "rx", Size: 400, Parts: []RxPart{{L: "i"}}, DtUs: 20_000}
			if m.largestSent[0] >= 0 {
				op.Parts[0].Ack = [][2]int64{{0, m.largestSent[0]}}
			}
			return op
		case 3:
			return Op{Kind: "rx", Size: 60, Parts: []RxPart{{L: "h"}}, DtUs: 20_000}
		case 4:
			return Op{Kind: "app", Want: []Dgram{{P: []TxPart{{L: "i", Sz: m.p.MaxDgram, AE: true}}}}}
		case 5:
			return Op{Kind: "app", Want: []Dgram{
				{P: []TxPart{{L: "i", Sz: 700, AE: true}, {L: "h", Sz: 500, AE: true}}},
				{P: []TxPart{{L: "h", Sz: 0, AE: true}}},
			}}
		case 6:
			return Op{Kind: "app", DtUs: 1000, Want: []Dgram{
				{P: []TxPart{{L: "i", Sz: 40}}}, {P: []TxPart{{L: "i", Sz: 41}}}, {P: []TxPart{{L: "h", Sz: 42}}},
			}}
		default:
			return Op{Kind: "alarm", Probe: []TxPart{{Sz: m.p.MaxDgram, AE: true}, {Sz: 0, AE: true}}}
		}
	}
	idx := 0
	for _, validated := range []bool{false, true} {
		for length := 1; length <= L; length++ {
			if validated && length > L-2 {
				continue // the control group gets a shorter horizon
			}
			n := 1
			for i := 0; i < length; i++ {
				n *= A
			}
			for code := 0; code < n; code++ {
				idx++
				if idx%sk != si {
					continue
				}
				u.Case()
				cs := vf.MachineCase[Params, Op]{Params: Params{Validated: validated, MaxDgram: 1200}}
				var blocked bool
				v := vf.Guard("amp-exhaustive", func() *vf.Verdict {
					m := newAmpMachine(cs.Params).(*ampMachine)
					c := code
					for i := -1; i < length; i++ {
						sym := 0
						if i >= 0 {
							sym = c % A
							c /= A
						}
						op := mkOp(sym, m)
						cs.Ops = append(cs.Ops, op)
						if v := m.Apply(op); v != nil {
							return v
						}
					}
					v := m.Finish(vf.Scratch())
					blocked = m.cls["blocked-with-data"]
					for c := range m.cls {
						u.Class(c)
					}
					return v
				})
				if v != nil {
					if vf.U("amp-model").Report(v, cs) {
						t.Fatalf("VIOLATION %s: %s (case %+v)", v.Sig, v.Detail, cs)
					}
				}
				if blocked {
					u.NonTrivial(validated, length, code)
					if code%7919 == 0 && u.WantSample() {
						u.Sample(cs)
					}
				}
			}
		}
	}
	u.Extra("exhaustive", fmt.Sprintf("all event sequences of length <= %d after the first datagram over an alphabet of %d events (arrivals 1200/1/400+ACK/Handshake, three kinds of send wishes incl. coalesced and exact-fill datagrams and ACK-only packets, loss-timer expiry), max datagram 1200; control group (validated token) up to length %d", L, A, L-2))
}
