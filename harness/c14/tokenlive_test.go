package c14

import (
	"bytes"
	"context"
	"fmt"
	"net"
	"sync"
	"testing"
	"time"

	"pgregory.net/rapid"

	quic "github.com/refraction-networking/uquic"
	"github.com/refraction-networking/uquic/testutils/simnet"
	"github.com/refraction-networking/uquic/verif/refwire"
	"github.com/refraction-networking/uquic/verif/sim"
	"github.com/refraction-networking/uquic/verif/vf"
)

// C14(c): "tokens prove only their address", end to end. The token units call the TokenGenerator with addresses
// the test chooses; WHICH address the server puts into a token (connection.go handleHandshakeComplete, server.go
// sendRetry) and which address it compares it with (server.go handleInitialImpl -> validateToken(p.remoteAddr))
// is glue that only a whole connection exercises - and only when client and server do not share one IP address.
//
// A server (own IP) with Transport.VerifySourceAddress == always (every Initial without a valid token is answered
// with a Retry) serves client A (own IP): Retry, handshake, NEW_TOKEN. Then the tokens A was given come back:
//   same-ip        A's NEW_TOKEN token from A's IP (same or another port)    -> no Retry, the handshake completes (RFC 9000 8.1.3)
//   other-ip       A's NEW_TOKEN token from client B's IP                    -> not proof of address: Retry first
//   server-ip      A's NEW_TOKEN token from the server's own IP (other port) -> not proof of address: Retry first
//   retry-other-ip / retry-server-ip   A's Retry token from B's / the server's IP -> never a validated connection (RFC 9000 8.1.2)
// One case in five runs without VerifySourceAddress; there ClientInfo.AddrVerified (GetConfigForClient) is the observation.

type LiveCase struct {
	Family   string   `json:"family"` // v4 | v6 | v4mapped
	A        []byte   `json:"a"`      // IP of client A
	B        []byte   `json:"b"`      // IP of client B
	S        []byte   `json:"s"`      // IP of the server
	APort    int      `json:"a_port"`
	SPort    int      `json:"s_port"`
	RTTms    int      `json:"rtt_ms"`
	NoRetry  bool     `json:"no_retry,omitempty"` // server without VerifySourceAddress
	Long     bool     `json:"long_chain,omitempty"`
	Follow   []string `json:"follow"`    // follow-up dials, in order
	PortSel  []int    `json:"port_sel"`  // per follow-up: 0 = a fresh port, 1 = A's port number, 2 = the server's port number (on another IP)
}

func liveIP(t *rapid.T, fam, label string) []byte {
	switch fam {
	case "v6":
		ip := net.ParseIP("2001:db8::").To16()
		tail := rapid.SliceOfN(rapid.Byte(), 4, 4).Draw(t, label)
		copy(ip[12:], tail)
		if rapid.IntRange(0, 3).Draw(t, label+"hi") == 0 {
			ip[7] = rapid.Byte().Draw(t, label+"mid")
		}
		return ip
	default:
		b := rapid.SliceOfN(rapid.Byte(), 4, 4).Draw(t, label)
		b[0] = 10 // stay clear of 0.0.0.0 / multicast; the value carries no meaning in the simulated network
		if fam == "v4mapped" {
			return net.IPv4(b[0], b[1], b[2], b[3]).To16()
		}
		return b
	}
}

// nearIP returns an address that differs from ip in exactly one place (last byte, one bit, first varying byte).
func liveNearIP(t *rapid.T, ip []byte, label string) []byte {
	o := append([]byte(nil), ip...)
	n := len(o)
	switch rapid.IntRange(0, 2).Draw(t, label+"how") {
	case 0:
		o[n-1] ^= byte(1 << rapid.IntRange(0, 7).Draw(t, label+"bit"))
	case 1:
		o[n-1-rapid.IntRange(0, 2).Draw(t, label+"idx")] += byte(rapid.IntRange(1, 255).Draw(t, label+"add"))
	default:
		o[n-1], o[n-2] = o[n-2], o[n-1]
		if bytes.Equal(o, ip) {
			o[n-1]++
		}
	}
	return o
}

func genLiveCase(t *rapid.T) LiveCase {
	c := LiveCase{Family: rapid.SampledFrom([]string{"v4", "v4", "v6", "v4mapped"}).Draw(t, "family")}
	c.A = liveIP(t, c.Family, "a")
	for {
		if rapid.Bool().Draw(t, "b-near") {
			c.B = liveNearIP(t, c.A, "b")
		} else {
			c.B = liveIP(t, c.Family, "b")
		}
		if rapid.IntRange(0, 2).Draw(t, "s-near") == 0 {
			c.S = liveNearIP(t, c.A, "s")
		} else {
			c.S = liveIP(t, c.Family, "s")
		}
		if !bytes.Equal(c.A, c.B) && !bytes.Equal(c.A, c.S) && !bytes.Equal(c.B, c.S) {
			break
		}
	}
	c.APort = rapid.IntRange(1024, 65000).Draw(t, "aport")
	c.SPort = rapid.SampledFrom([]int{443, 443, 4433, 8443, 50000}).Draw(t, "sport")
	if c.SPort == c.APort {
		c.APort++
	}
	c.RTTms = rapid.SampledFrom([]int{2, 20, 80}).Draw(t, "rtt")
	c.NoRetry = rapid.IntRange(0, 4).Draw(t, "noretry") == 0
	c.Long = rapid.IntRange(0, 3).Draw(t, "long") == 0
	kinds := []string{"same-ip", "other-ip", "server-ip", "retry-other-ip", "retry-server-ip"}
	if c.NoRetry {
		kinds = kinds[:3] // no Retry token exists
	}
	n := rapid.IntRange(1, 3).Draw(t, "nfollow")
	for i := 0; i < n; i++ {
		c.Follow = append(c.Follow, rapid.SampledFrom(kinds).Draw(t, "follow"))
		c.PortSel = append(c.PortSel, rapid.SampledFrom([]int{0, 0, 1, 1, 2}).Draw(t, "portsel"))
	}
	return c
}

// liveStore is a quic.TokenStore shared by nothing: one per dial, optionally preloaded.
type liveStore struct {
	mu     sync.Mutex
	tokens []*quic.ClientToken
	puts   int
	got    chan struct{}
}

func newLiveStore(pre *quic.ClientToken) *liveStore {
	s := &liveStore{got: make(chan struct{}, 8)}
	if pre != nil {
		s.tokens = append(s.tokens, pre)
	}
	return s
}

func (s *liveStore) Pop(string) *quic.ClientToken {
	s.mu.Lock()
	defer s.mu.Unlock()
	if len(s.tokens) == 0 {
		return nil
	}
	t := s.tokens[len(s.tokens)-1]
	s.tokens = s.tokens[:len(s.tokens)-1]
	return t
}

func (s *liveStore) Put(_ string, t *quic.ClientToken) {
	s.mu.Lock()
	s.tokens = append(s.tokens, t)
	s.puts++
	s.mu.Unlock()
	select {
	case s.got <- struct{}{}:
	default:
	}
}

// phaseView is what the wire showed between two marks of the router log.
type phaseView struct {
	firstToken   []byte // token of the first client Initial of the phase
	sawInitial   bool
	retries      int   // Retry packets sent by the server
	accepted     bool  // the server answered with handshake data (CRYPTO in an Initial, or a Handshake packet)
	closeCodes   []uint64
	newTokens    [][]byte // NEW_TOKEN frames sent by the server
	retryTokens  [][]byte // tokens of Retry packets sent by the server
	retryBefore  bool     // a Retry was the first thing the server sent in the phase
	serverSentAt int
}

func viewPhase(log []*sim.Record) phaseView {
	var p phaseView
	first := true
	for _, r := range log {
		pk, _ := r.Pkts.([]*sim.Packet)
		for _, k := range pk {
			if r.Dir == "c2s" {
				if k.Kind == "initial" && !p.sawInitial {
					p.sawInitial = true
					p.firstToken = append([]byte(nil), k.Token...)
				}
				continue
			}
			switch k.Kind {
			case "retry":
				p.retries++
				p.retryTokens = append(p.retryTokens, append([]byte(nil), k.Token...))
				if first {
					p.retryBefore = true
				}
				first = false
			case "initial", "handshake":
				if !p.sawInitial {
					continue // leftovers of an earlier phase cannot be Initial/Handshake packets, but stay safe
				}
				first = false
				if k.Kind == "handshake" {
					p.accepted = true
				}
				for _, f := range k.Frames {
					switch f.Name {
					case refwire.NameCrypto:
						p.accepted = true
					case refwire.NameConnectionClose:
						p.closeCodes = append(p.closeCodes, f.ErrorCode)
					}
				}
			case "1rtt":
				for _, f := range k.Frames {
					if f.Name == refwire.NameNewToken {
						p.newTokens = append(p.newTokens, append([]byte(nil), f.Token...))
					}
				}
			}
		}
	}
	return p
}

type addrRec struct {
	addr     string
	verified bool
}

func checkLiveCase(c LiveCase, u *vf.Unit) *vf.Verdict {
	u.Journal(c)
	var v *vf.Verdict
	classes := map[string]int{}
	sim.Bubble(wireT, 12*time.Second, func() {
		rtt := time.Duration(c.RTTms) * time.Millisecond
		aAddr := &net.UDPAddr{IP: net.IP(c.A), Port: c.APort}
		sAddr := &net.UDPAddr{IP: net.IP(c.S), Port: c.SPort}
		r := sim.NewRouter(rtt/2, nil, nil, nil)
		w := &sim.World{Router: r, ClientKeys: &sim.KeyLog{}, ServerKeys: &sim.KeyLog{}}
		w.ServerConn = simnet.NewBlockingSimConn(sAddr, r)
		w.ClientConn = simnet.NewBlockingSimConn(aAddr, r)
		r.SetEndpoints(aAddr, sAddr)
		defer w.Close()
		w.Observe()

		var mu sync.Mutex
		var seen []addrRec
		st := &quic.Transport{Conn: w.ServerConn}
		if !c.NoRetry {
			st.VerifySourceAddress = func(net.Addr) bool { return true }
		}
		sconf := &quic.Config{DisablePathMTUDiscovery: true, HandshakeIdleTimeout: 5 * time.Second, MaxIdleTimeout: 10 * time.Second}
		sconf.GetConfigForClient = func(ci *quic.ClientInfo) (*quic.Config, error) {
			mu.Lock()
			seen = append(seen, addrRec{ci.RemoteAddr.String(), ci.AddrVerified})
			mu.Unlock()
			return sconf, nil
		}
		ln, err := st.Listen(sim.ServerTLS(c.Long, w.ServerKeys), sconf)
		if err != nil {
			v = vf.Bad("C14/harness/listen", "%v", err)
			st.Close()
			return
		}
		actx, acancel := context.WithCancel(context.Background())
		accDone := make(chan struct{})
		go func() {
			defer close(accDone)
			for {
				conn, err := ln.Accept(actx)
				if err != nil {
					return
				}
				go func() { <-conn.Context().Done() }()
			}
		}()

		transports := []*quic.Transport{}
		endpoints := map[string]*quic.Transport{}
		endpoint := func(ip []byte, port int) *quic.Transport {
			a := &net.UDPAddr{IP: net.IP(ip), Port: port}
			if t, ok := endpoints[a.String()]; ok {
				return t
			}
			var pc net.PacketConn
			if a.String() == aAddr.String() {
				pc = w.ClientConn
			} else {
				pc = simnet.NewBlockingSimConn(a, r)
			}
			t := &quic.Transport{Conn: pc}
			endpoints[a.String()] = t
			transports = append(transports, t)
			return t
		}
		cconf := func(s *liveStore) *quic.Config {
			return &quic.Config{DisablePathMTUDiscovery: true, HandshakeIdleTimeout: 5 * time.Second, MaxIdleTimeout: 10 * time.Second, TokenStore: s}
		}
		dial := func(t *quic.Transport, s *liveStore) (*quic.Conn, error) {
			ctx, cancel := context.WithTimeout(context.Background(), 8*time.Second)
			defer cancel()
			return t.Dial(ctx, sAddr, sim.ClientTLS(w.ClientKeys), cconf(s))
		}
		cleanup := func() {
			acancel()
			ln.Close()
			for _, t := range transports {
				t.Close()
			}
			st.Close()
			<-accDone
		}

		// ---- phase 0: A's first connection ----
		storeA := newLiveStore(nil)
		conn, err := dial(endpoint(c.A, c.APort), storeA)
		if err != nil {
			time.Sleep(3*rtt + 50*time.Millisecond)
			ph0 := viewPhase(r.Log[:r.Mark()])
			invalid := false
			for _, cc := range ph0.closeCodes {
				invalid = invalid || cc == 0x0b
			}
			if ph0.retries > 0 && invalid && !ph0.accepted {
				// the client answered the Retry from the very address the Retry was sent to (one socket, lossless network,
				// well inside the Retry token lifetime of 2 x HandshakeIdleTimeout) and was refused with INVALID_TOKEN
				v = vf.Bad("C14/token-live/own-address-not-accepted", "a Retry token returned at once from the address it was issued for was refused with INVALID_TOKEN: %v (server %v, client %v, %s; RFC 9000 8.1.2)", err, sAddr, aAddr, c.Family)
				v.Trace = r.Trace(40)
			} else {
				classes["skip:first-connection-failed"]++
			}
			cleanup()
			return
		}
		if !sim.WaitCtx(storeA.got, 3*time.Second) {
			classes["skip:no-new-token-received"]++
			conn.CloseWithError(0, "")
			cleanup()
			return
		}
		conn.CloseWithError(0, "")
		time.Sleep(3*rtt + 50*time.Millisecond)
		ph0 := viewPhase(r.Log[:r.Mark()])
		newTok := storeA.Pop("")
		if newTok == nil || len(ph0.newTokens) == 0 {
			classes["skip:no-new-token-received"]++
			cleanup()
			return
		}
		wireNewTok := ph0.newTokens[len(ph0.newTokens)-1]
		var retryTok []byte
		if !c.NoRetry {
			if ph0.retries == 0 || len(ph0.retryTokens) == 0 {
				classes["skip:first-connection-not-retried"]++
				cleanup()
				return
			}
			classes["first-connection-retried"]++
			retryTok = ph0.retryTokens[0]
		}

		// ---- follow-ups ----
		bPort := c.APort + 1
		if bPort == c.SPort || bPort > 65535 {
			bPort = c.APort - 2
		}
		for i, kind := range c.Follow {
			if v != nil {
				break
			}
			var ip []byte
			switch kind {
			case "same-ip":
				ip = c.A
			case "other-ip", "retry-other-ip":
				ip = c.B
			default:
				ip = c.S
			}
			port, sp := bPort+i*3, "other-port"
			switch {
			case c.PortSel[i] == 1, c.PortSel[i] == 2 && bytes.Equal(ip, c.S):
				port, sp = c.APort, "same-port"
			case c.PortSel[i] == 2:
				port, sp = c.SPort, "server-port"
			}
			if bytes.Equal(ip, c.S) && port == c.SPort {
				port = c.SPort + 7
			}
			var pre *quic.ClientToken
			var want []byte
			if kind == "retry-other-ip" || kind == "retry-server-ip" {
				pre, want = quic.NewClientToken(retryTok), retryTok
			} else if kind == "same-ip" {
				pre, want = newTok, wireNewTok // the very object the library handed to A's token store
			} else {
				pre, want = quic.NewClientToken(wireNewTok), wireNewTok
			}
			from := &net.UDPAddr{IP: net.IP(ip), Port: port}
			mu.Lock()
			seenFrom := len(seen)
			mu.Unlock()
			mark := r.Mark()
			conn, derr := dial(endpoint(ip, port), newLiveStore(pre))
			if conn != nil {
				conn.CloseWithError(0, "")
			}
			time.Sleep(3*rtt + 50*time.Millisecond)
			ph := viewPhase(r.Log[mark:r.Mark()])
			mu.Lock()
			recs := append([]addrRec(nil), seen[seenFrom:]...)
			mu.Unlock()
			if !ph.sawInitial || !bytes.Equal(ph.firstToken, want) {
				classes["skip:token-not-presented"]++
				continue
			}
			verifiedWithoutRetry := false
			for _, x := range recs {
				if x.verified && ph.retries == 0 {
					verifiedWithoutRetry = true
				}
			}
			desc := fmt.Sprintf("server %v, token issued to client %v, presented from %v (%s)", sAddr, aAddr, from, c.Family)
			switch kind {
			case "same-ip":
				switch {
				case c.NoRetry:
					// without VerifySourceAddress nothing observable distinguishes an accepted from an ignored token
					// except ClientInfo.AddrVerified, whose documentation speaks of Retry only: classify, do not judge
					if verifiedWithoutRetry {
						classes["noretry:new-token-same-ip-addr-verified"]++
					} else {
						classes["noretry:new-token-same-ip-not-verified"]++
					}
				case ph.retries > 0:
					v = vf.Bad("C14/token-live/own-address-not-accepted", "a NEW_TOKEN token presented from the IP address it was issued for was not accepted as proof of address: the server sent %d Retry packet(s) (%s; RFC 9000 8.1.3)", ph.retries, desc)
				case derr != nil:
					v = vf.Bad("C14/token-live/redial-with-own-token-failed", "the connection attempt that presented the server's own NEW_TOKEN token from the address it was issued for failed on a lossless network: %v (%s; accepted by the server: %v, CONNECTION_CLOSE codes from the server %v)", derr, desc, ph.accepted, ph.closeCodes)
				default:
					classes["new-token-same-ip-accepted-without-retry"]++
					classes["new-token-same-ip-accepted-without-retry:"+sp]++
				}
			case "other-ip", "server-ip":
				lbl := map[string]string{"other-ip": "new-token-other-ip-retried", "server-ip": "new-token-server-ip-rejected"}[kind]
				switch {
				case verifiedWithoutRetry:
					v = vf.Bad("C14/token-live/token-accepted-from-other-address", "the server reported the address as verified (ClientInfo.AddrVerified) for a client that presented a NEW_TOKEN token issued to another IP address, without a Retry (%s)", desc)
				case !c.NoRetry && ph.accepted && ph.retries == 0:
					v = vf.Bad("C14/token-live/token-accepted-from-other-address", "VerifySourceAddress demands validation of every address, yet the server answered a client that presented a NEW_TOKEN token issued to another IP address with handshake data and no Retry (%s)", desc)
				case c.NoRetry:
					classes["noretry:"+kind+"-not-verified"]++
				case ph.retries > 0:
					classes[lbl]++
					classes[lbl+":"+sp]++
					if derr == nil {
						classes[lbl+":then-completed"]++
					}
				default:
					classes["other-address-no-response"]++
				}
			case "retry-other-ip", "retry-server-ip":
				lbl := map[string]string{"retry-other-ip": "retry-token-other-ip-rejected", "retry-server-ip": "retry-token-server-ip-rejected"}[kind]
				invalid := false
				for _, cc := range ph.closeCodes {
					if cc == 0x0b {
						invalid = true
					}
				}
				switch {
				case verifiedWithoutRetry:
					v = vf.Bad("C14/token-live/retry-token-accepted-from-other-address", "the server reported the address as verified (ClientInfo.AddrVerified) for a client that replayed a Retry token issued to another IP address (%s; RFC 9000 8.1.2)", desc)
				case ph.accepted && ph.retries == 0:
					v = vf.Bad("C14/token-live/retry-token-accepted-from-other-address", "the server answered a client that replayed a Retry token issued to another IP address with handshake data (%s; RFC 9000 8.1.2)", desc)
				case derr == nil && ph.retries == 0:
					v = vf.Bad("C14/token-live/retry-token-accepted-from-other-address", "a connection that replayed a Retry token issued to another IP address completed its handshake (%s)", desc)
				default:
					classes[lbl]++
					classes[lbl+":"+sp]++
					if invalid {
						classes[lbl+":invalid-token-close"]++
					} else if ph.retries > 0 {
						classes[lbl+":fresh-retry"]++
					} else {
						classes[lbl+":silent"]++
					}
				}
			}
		}
		if v != nil {
			v.Trace = r.Trace(120)
		}
		cleanup()
	}, func(rep sim.LeakReport) {
		if v == nil {
			v = vf.Bad("C14/leak/goroutines", "%d goroutines alive:\n%s", rep.Count, rep.Dump)
		}
	})
	judged := 0
	for k, n := range classes {
		for i := 0; i < n; i++ {
			u.Class(k)
		}
		if len(k) < 5 || k[:5] != "skip:" {
			judged += n
		}
	}
	if v == nil && judged > 0 {
		u.Class("family:" + c.Family)
		near := func(x []byte) bool {
			d := 0
			for i := range x {
				if x[i] != c.A[i] {
					d++
				}
			}
			return d == 1
		}
		if near(c.B) || near(c.S) {
			u.Class("neighbour-address")
		}
		u.NonTrivial(c.Family, c.A, c.B, c.S, c.APort, c.Follow, c.PortSel, c.NoRetry)
		if u.WantSample() {
			u.Sample(c)
		}
	}
	return v
}

func TestTokenAddressLive(t *testing.T) {
	wireT = t
	vf.ReplayRepeat = 10
	vf.RunRapid(t, "token-address-live", genLiveCase, checkLiveCase)
}
