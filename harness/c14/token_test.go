//go:build go1.25

// C14 (c), pure-function half: address validation tokens.
//
// Units
//
//	token-roundtrip   rapid, inside a testing/synctest bubble (fake clock): issue a Retry / NEW_TOKEN
//	                  token, decode it, check connection IDs, the address binding, that SentTime is the
//	                  issue instant to the nanosecond, and that the server's validation predicate
//	                  (server.go validateToken; evaluated twice: as the documented composition of the
//	                  exported pieces, and through the real method via the verif hook) accepts the token
//	                  iff the presenting address is the issuing one and the age is within the lifetime.
//	token-cid-exhaustive  every (ODCID length, Retry SCID length) in 0..20 x 0..20, three byte patterns,
//	                  three address families.
//	token-forgery     rapid: truncation, bit flip, byte change, extension, splicing of two valid tokens,
//	                  decoding under another key, a token sealed for the victim under the attacker's key.
//	FuzzTokenMutation native fuzzing over (token bytes, mutation) with the same oracle.
package c14

import (
	"bytes"
	"encoding/hex"
	"encoding/json"
	"fmt"
	"net"
	"testing"
	"testing/synctest"
	"time"

	"pgregory.net/rapid"

	quic "github.com/refraction-networking/uquic"
	"github.com/refraction-networking/uquic/internal/handshake"
	"github.com/refraction-networking/uquic/internal/protocol"
	"github.com/refraction-networking/uquic/verif/vf"
)

const (
	nonceLen = 32 // token_protector.go tokenNonceSize
	tagLen   = 16 // AES-GCM tag
)

// ---------------------------------------------------------------------------------------------
// addresses

// AddrSpec is a JSON-serialisable description of a net.Addr.
type AddrSpec struct {
	Kind string `json:"kind"` // udp | tcp | ip | unix | str
	IP   []byte `json:"ip,omitempty"`
	Port int    `json:"port,omitempty"`
	Zone string `json:"zone,omitempty"`
	Str  string `json:"str,omitempty"`
}

type strAddr string

func (strAddr) Network() string  { return "verif" }
func (a strAddr) String() string { return string(a) }

func (a AddrSpec) Addr() net.Addr {
	switch a.Kind {
	case "udp":
		return &net.UDPAddr{IP: net.IP(a.IP), Port: a.Port, Zone: a.Zone}
	case "tcp":
		return &net.TCPAddr{IP: net.IP(a.IP), Port: a.Port, Zone: a.Zone}
	case "ip":
		return &net.IPAddr{IP: net.IP(a.IP), Zone: a.Zone}
	case "unix":
		return &net.UnixAddr{Name: a.Str, Net: "unixgram"}
	default:
		return strAddr(a.Str)
	}
}

func genIP(t *rapid.T, label string) []byte {
	switch rapid.IntRange(0, 5).Draw(t, label+"-fam") {
	case 0, 1:
		return rapid.SliceOfN(rapid.Byte(), 4, 4).Draw(t, label+"-v4")
	case 2:
		// IPv4 in the 16-byte form net.IPv4() produces (what ReadMsgUDP on a dual-stack socket yields)
		b := rapid.SliceOfN(rapid.Byte(), 4, 4).Draw(t, label+"-v4m")
		return []byte(net.IPv4(b[0], b[1], b[2], b[3]))
	case 3:
		return []byte{192, 0, 2, rapid.Byte().Draw(t, label+"-lsb")}
	default:
		return rapid.SliceOfN(rapid.Byte(), 16, 16).Draw(t, label+"-v6")
	}
}

func genAddr(t *rapid.T) AddrSpec {
	switch rapid.IntRange(0, 9).Draw(t, "addrkind") {
	case 0, 1, 2, 3, 4, 5:
		a := AddrSpec{Kind: "udp", IP: genIP(t, "ip"), Port: rapid.IntRange(0, 65535).Draw(t, "port")}
		if len(a.IP) == 16 && rapid.IntRange(0, 5).Draw(t, "zoned") == 0 {
			a.Zone = rapid.SampledFrom([]string{"eth0", "lo", "1"}).Draw(t, "zone")
		}
		return a
	case 6:
		return AddrSpec{Kind: "tcp", IP: genIP(t, "ip"), Port: rapid.IntRange(0, 65535).Draw(t, "port")}
	case 7:
		return AddrSpec{Kind: "ip", IP: genIP(t, "ip")}
	case 8:
		return AddrSpec{Kind: "unix", Str: "/run/" + rapid.StringMatching(`[a-z]{1,8}`).Draw(t, "unixname")}
	default:
		return AddrSpec{Kind: "str", Str: rapid.StringN(0, 24, 48).Draw(t, "str")}
	}
}

// genOther derives a second address and its relation to a:
//
//	same            identical value
//	same-ip         *net.UDPAddr with the same IP bytes but another port and/or zone: must still validate
//	other-ip        *net.UDPAddr whose IP bytes differ: must not validate
//	other-string    non-UDP address of the same type with a different String(): must not validate
//	other-type      address of a different Go type (UDP vs non-UDP): the encodings carry different prefixes
//	other-repr      the same IPv4 address in the other (4 vs 16 byte) representation: no expectation
func genOther(t *rapid.T, a AddrSpec) (AddrSpec, string) {
	o := a
	o.IP = append([]byte(nil), a.IP...)
	if a.Kind == "udp" {
		switch rapid.IntRange(0, 9).Draw(t, "rel") {
		case 0:
			return o, "same"
		case 1, 2, 3:
			o.Port = (a.Port + rapid.IntRange(1, 65535).Draw(t, "dport")) % 65536
			if len(o.IP) == 16 && rapid.Bool().Draw(t, "dzone") {
				o.Zone = a.Zone + "x"
			}
			return o, "same-ip"
		case 4, 5, 6:
			switch rapid.IntRange(0, 2).Draw(t, "iphow") {
			case 0: // one bit
				bit := rapid.IntRange(0, 8*len(o.IP)-1).Draw(t, "ipbit")
				o.IP[bit/8] ^= 1 << (bit % 8)
			case 1: // fresh address
				o.IP = genIP(t, "oip")
				if bytes.Equal(o.IP, a.IP) {
					o.IP[len(o.IP)-1] ^= 0x80
				}
			default: // last byte
				o.IP[len(o.IP)-1] += byte(rapid.IntRange(1, 255).Draw(t, "dlsb"))
			}
			if rapid.Bool().Draw(t, "keepport") {
				o.Port = a.Port
			}
			if net.IP(o.IP).Equal(net.IP(a.IP)) {
				return o, "other-repr"
			}
			return o, "other-ip"
		case 7:
			if ip4 := net.IP(a.IP).To4(); ip4 != nil {
				if len(a.IP) == 4 {
					o.IP = []byte(net.IPv4(ip4[0], ip4[1], ip4[2], ip4[3]))
				} else {
					o.IP = []byte(ip4)
				}
				return o, "other-repr"
			}
			return o, "same"
		default:
			o.Kind = rapid.SampledFrom([]string{"tcp", "ip"}).Draw(t, "okind")
			return o, "other-type"
		}
	}
	switch rapid.IntRange(0, 5).Draw(t, "rel") {
	case 0, 1:
		return o, "same"
	case 2:
		o = AddrSpec{Kind: "udp", IP: genIP(t, "oip"), Port: a.Port}
		if len(a.IP) > 0 {
			o.IP = append([]byte(nil), a.IP...)
		}
		return o, "other-type"
	default:
		switch a.Kind {
		case "tcp":
			if rapid.Bool().Draw(t, "tcpport") {
				o.Port = (a.Port + rapid.IntRange(1, 65535).Draw(t, "dport")) % 65536
			} else {
				o.IP[len(o.IP)-1] ^= byte(rapid.IntRange(1, 255).Draw(t, "dlsb"))
			}
		case "ip":
			o.IP[len(o.IP)-1] ^= byte(rapid.IntRange(1, 255).Draw(t, "dlsb"))
		default:
			o.Str = a.Str + rapid.StringN(1, 4, 8).Draw(t, "suffix")
		}
		if o.Addr().String() == a.Addr().String() {
			return o, "same"
		}
		return o, "other-string"
	}
}

// ---------------------------------------------------------------------------------------------
// the server's predicate

// serverAccepts reproduces server.go validateToken as the composition of the exported pieces
// (token != nil, ValidateRemoteAddr, age against MaxTokenAge resp. the Retry token lifetime).
func serverAccepts(tok *handshake.Token, addr net.Addr, maxTokenAge, maxRetryTokenAge time.Duration) bool {
	if tok == nil {
		return false
	}
	if !tok.ValidateRemoteAddr(addr) {
		return false
	}
	if !tok.IsRetryToken && time.Since(tok.SentTime) > maxTokenAge {
		return false
	}
	if tok.IsRetryToken && time.Since(tok.SentTime) > maxRetryTokenAge {
		return false
	}
	return true
}

// ---------------------------------------------------------------------------------------------
// token-roundtrip

type TokenCase struct {
	Key        []byte   `json:"key"` // 32 bytes
	Retry      bool     `json:"retry"`
	ODCID      []byte   `json:"odcid,omitempty"`
	RSCID      []byte   `json:"rscid,omitempty"`
	RTTNs      int64    `json:"rtt_ns,omitempty"`
	Addr       AddrSpec `json:"addr"`
	Other      AddrSpec `json:"other"`
	Rel        string   `json:"rel"`
	AgeNs      int64    `json:"age_ns"`
	MaxAgeNs   int64    `json:"max_token_age_ns"`
	HSIdleNs   int64    `json:"handshake_idle_timeout_ns"`
	StartOffNs int64    `json:"start_offset_ns"` // fake-clock offset of the issue instant
}

func genKey(t *rapid.T, label string) []byte {
	switch rapid.IntRange(0, 7).Draw(t, label+"-kind") {
	case 0:
		return make([]byte, 32)
	case 1:
		return bytes.Repeat([]byte{0xff}, 32)
	default:
		return rapid.SliceOfN(rapid.Byte(), 32, 32).Draw(t, label)
	}
}

func genCID(t *rapid.T, label string) []byte {
	n := rapid.IntRange(0, 20).Draw(t, label+"-len")
	switch rapid.IntRange(0, 5).Draw(t, label+"-pat") {
	case 0:
		return make([]byte, n)
	case 1:
		return bytes.Repeat([]byte{0xff}, n)
	default:
		return rapid.SliceOfN(rapid.Byte(), n, n).Draw(t, label)
	}
}

func genTokenCase(t *rapid.T) TokenCase {
	c := TokenCase{Key: genKey(t, "key"), Retry: rapid.Bool().Draw(t, "retry")}
	if c.Retry {
		c.ODCID = genCID(t, "odcid")
		c.RSCID = genCID(t, "rscid")
	} else {
		c.RTTNs = rapid.SampledFrom([]int64{0, 1, 999, 1000, 1_234_567, int64(time.Second), int64(30 * time.Second)}).Draw(t, "rtt")
	}
	c.Addr = genAddr(t)
	c.Other, c.Rel = genOther(t, c.Addr)
	c.MaxAgeNs = int64(rapid.SampledFrom([]time.Duration{time.Second, 7 * time.Second, time.Hour, 24 * time.Hour, 7 * 24 * time.Hour}).Draw(t, "maxage"))
	c.HSIdleNs = int64(rapid.SampledFrom([]time.Duration{time.Second, 5 * time.Second, 30 * time.Second}).Draw(t, "hsidle"))
	c.StartOffNs = rapid.SampledFrom([]int64{0, 1, 999_999_999, 1_000_000_001, int64(36 * time.Hour), 123_456_789_123}).Draw(t, "startoff")
	life := c.MaxAgeNs
	otherLife := 2 * c.HSIdleNs
	if c.Retry {
		life, otherLife = otherLife, life
	}
	switch rapid.IntRange(0, 11).Draw(t, "agemode") {
	case 0:
		c.AgeNs = 0
	case 1:
		c.AgeNs = 1
	case 2:
		c.AgeNs = life - 1
	case 3, 4:
		c.AgeNs = life
	case 5, 6:
		c.AgeNs = life + 1
	case 7:
		c.AgeNs = life + 1000
	case 8:
		// between the two lifetimes: tells a server that applies the wrong lifetime to this token kind
		lo, hi := min(life, otherLife), max(life, otherLife)
		c.AgeNs = rapid.Int64Range(lo, hi).Draw(t, "age-between")
	case 9:
		c.AgeNs = 2 * life
	default:
		c.AgeNs = rapid.Int64Range(0, 2*life).Draw(t, "age")
	}
	return c
}

func cidOf(b []byte) protocol.ConnectionID { return protocol.ParseConnectionID(b) }

func keyOf(b []byte) handshake.TokenProtectorKey {
	var k handshake.TokenProtectorKey
	copy(k[:], b)
	return k
}

func issue(g *handshake.TokenGenerator, retry bool, addr net.Addr, odcid, rscid []byte, rtt time.Duration) ([]byte, error) {
	if retry {
		return g.NewRetryToken(addr, cidOf(odcid), cidOf(rscid))
	}
	return g.NewToken(addr, rtt)
}

// checkTokenCase must run inside a synctest bubble.
func checkTokenCase(c TokenCase, u *vf.Unit) *vf.Verdict {
	g := handshake.NewTokenGenerator(keyOf(c.Key))
	addr, other := c.Addr.Addr(), c.Other.Addr()
	time.Sleep(time.Duration(c.StartOffNs))
	issued := time.Now()
	tok, err := issue(g, c.Retry, addr, c.ODCID, c.RSCID, time.Duration(c.RTTNs))
	if err != nil {
		return vf.Bad("C14/token/issue-error", "issuing a token failed: %v", err)
	}
	dec, err := g.DecodeToken(tok)
	if err != nil || dec == nil {
		return vf.Bad("C14/token/valid-token-rejected", "DecodeToken of a freshly issued token: token=%v err=%v", dec, err)
	}
	kind := "new-token"
	if c.Retry {
		kind = "retry"
	}
	u.Class(kind)
	if dec.IsRetryToken != c.Retry {
		return vf.Bad("C14/token/kind-mismatch", "issued retry=%v, decoded IsRetryToken=%v", c.Retry, dec.IsRetryToken)
	}
	if c.Retry {
		if dec.OriginalDestConnectionID != cidOf(c.ODCID) || dec.OriginalDestConnectionID.Len() != len(c.ODCID) ||
			!bytes.Equal(dec.OriginalDestConnectionID.Bytes(), c.ODCID) {
			return vf.Bad("C14/token/cid-mismatch", "original destination connection ID: issued %x (len %d), decoded %x (len %d)",
				c.ODCID, len(c.ODCID), dec.OriginalDestConnectionID.Bytes(), dec.OriginalDestConnectionID.Len())
		}
		if dec.RetrySrcConnectionID != cidOf(c.RSCID) || !bytes.Equal(dec.RetrySrcConnectionID.Bytes(), c.RSCID) {
			return vf.Bad("C14/token/cid-mismatch", "retry source connection ID: issued %x (len %d), decoded %x (len %d)",
				c.RSCID, len(c.RSCID), dec.RetrySrcConnectionID.Bytes(), dec.RetrySrcConnectionID.Len())
		}
		u.Class(fmt.Sprintf("cidlen-%d", len(c.ODCID)/7))
	}
	if dec.SentTime.UnixNano() != issued.UnixNano() {
		return vf.Bad("C14/token/senttime-mismatch", "issued at %d ns, decoded SentTime %d ns", issued.UnixNano(), dec.SentTime.UnixNano())
	}

	// address binding
	if !dec.ValidateRemoteAddr(addr) {
		return vf.Bad("C14/token/issuer-rejected", "ValidateRemoteAddr(%v) is false for the issuing address", addr)
	}
	otherOK := dec.ValidateRemoteAddr(other)
	u.Class("rel-" + c.Rel)
	var wantOther, haveExpectation bool
	switch c.Rel {
	case "same", "same-ip":
		wantOther, haveExpectation = true, true
		if !otherOK {
			return vf.Bad("C14/token/issuer-rejected", "ValidateRemoteAddr(%v) is false although the token was issued for %v (relation %s)", other, addr, c.Rel)
		}
	case "other-ip", "other-string", "other-type":
		wantOther, haveExpectation = false, true
		if otherOK {
			return vf.Bad("C14/token/foreign-address-accepted", "token issued for %v (%T) validates for %v (%T)", addr, addr, other, other)
		}
	}

	// lifetime: the server's predicate at age AgeNs
	time.Sleep(time.Duration(c.AgeNs))
	if got := time.Since(issued); got != time.Duration(c.AgeNs) {
		return vf.Bad("C14/harness/fake-clock", "fake clock advanced by %v, wanted %v", got, time.Duration(c.AgeNs))
	}
	maxTok, hsIdle := time.Duration(c.MaxAgeNs), time.Duration(c.HSIdleNs)
	maxRetry := 2 * hsIdle // Config.maxRetryTokenAge() == handshakeTimeout() == 2*HandshakeIdleTimeout
	if got := quic.VerifMaxRetryTokenAge(hsIdle); got != maxRetry {
		u.Class("retry-lifetime-differs-from-2x-idle")
		maxRetry = got
	}
	life := maxTok
	if c.Retry {
		life = maxRetry
	}
	fresh := time.Duration(c.AgeNs) <= life
	switch {
	case time.Duration(c.AgeNs) == life:
		u.Class("age-at-limit")
	case time.Duration(c.AgeNs) == life+1:
		u.Class("age-limit+1ns")
	case fresh:
		u.Class("age-fresh")
	default:
		u.Class("age-expired")
	}
	type probe struct {
		name string
		a    net.Addr
		ok   bool // address relation says the token was issued for this address
		have bool
	}
	for _, p := range []probe{{"issuer", addr, true, true}, {"other", other, wantOther, haveExpectation}} {
		if !p.have {
			continue
		}
		want := p.ok && fresh
		for _, leg := range []struct {
			name string
			got  bool
		}{
			{"composition", serverAccepts(dec, p.a, maxTok, maxRetry)},
			{"server.validateToken", quic.VerifValidateToken(dec, p.a, maxTok, hsIdle)},
		} {
			if leg.got == want {
				continue
			}
			switch {
			case leg.got && !p.ok:
				return vf.Bad("C14/token/foreign-address-accepted", "%s: %s token issued for %v accepted for %v (age %v)", leg.name, kind, addr, p.a, time.Duration(c.AgeNs))
			case leg.got && !fresh:
				return vf.Bad("C14/token/expired-accepted", "%s: %s token of age %v accepted, lifetime %v (MaxTokenAge %v, retry lifetime %v)", leg.name, kind, time.Duration(c.AgeNs), life, maxTok, maxRetry)
			default:
				return vf.Bad("C14/token/valid-token-rejected", "%s: %s token of age %v for its own address (%s: %v) rejected, lifetime %v (MaxTokenAge %v, retry lifetime %v)", leg.name, kind, time.Duration(c.AgeNs), p.name, p.a, life, maxTok, maxRetry)
			}
		}
	}
	// nil token (no token presented / undecodable) is never a proof
	if quic.VerifValidateToken(nil, addr, maxTok, hsIdle) || serverAccepts(nil, addr, maxTok, maxRetry) {
		return vf.Bad("C14/token/absent-accepted", "validateToken(nil) is true")
	}
	// non-trivial: the case discriminates (an address that must be refused, or an age at/over the limit)
	if (haveExpectation && !wantOther) || time.Duration(c.AgeNs) >= life {
		u.NonTrivial(kind, c.Rel, c.Addr.Kind, len(c.Addr.IP), c.Other.Kind, len(c.ODCID), len(c.RSCID), c.AgeNs-int64(life), c.MaxAgeNs, c.HSIdleNs, c.Key[:4], c.Other.IP, c.Other.Str)
	}
	return nil
}

// inBubble runs f under a fake clock (testing/synctest): time.Now() inside NewToken / time.Since inside
// validateToken are exact, and time.Sleep advances the clock instantly.
func inBubble(t *testing.T, unit string, f func() *vf.Verdict) (v *vf.Verdict) {
	synctest.Test(t, func(*testing.T) {
		v = vf.Guard(unit, f) // panics must be caught inside the bubble's goroutine
	})
	return v
}

func TestTokenRoundTrip(t *testing.T) {
	vf.RunRapid(t, "token-roundtrip", genTokenCase, func(c TokenCase, u *vf.Unit) *vf.Verdict {
		return inBubble(t, "token-roundtrip", func() *vf.Verdict { return checkTokenCase(c, u) })
	})
}

// ---------------------------------------------------------------------------------------------
// token-cid-exhaustive

func TestTokenCIDExhaustive(t *testing.T) {
	u := vf.U("token-cid-exhaustive")
	if vf.ReplayMode() {
		t.Skip("failures of this unit are reported in token-roundtrip format")
	}
	si, sk := vf.Shard()
	addrs := []AddrSpec{
		{Kind: "udp", IP: []byte{192, 0, 2, 7}, Port: 4433},
		{Kind: "udp", IP: []byte(net.ParseIP("2001:db8::7")), Port: 4433},
		{Kind: "str", Str: "peer-7"},
	}
	pat := func(n, k int) []byte {
		b := make([]byte, n)
		for i := range b {
			switch k {
			case 1:
				b[i] = 0xff
			case 2:
				b[i] = byte(17*i + 3*n + 1)
			}
		}
		return b
	}
	idx := 0
	for ai, a := range addrs {
		for k := 0; k < 3; k++ {
			for ol := 0; ol <= 20; ol++ {
				for rl := 0; rl <= 20; rl++ {
					idx++
					if idx%sk != si {
						continue
					}
					c := TokenCase{Key: pat(32, 2), Retry: true, ODCID: pat(ol, k), RSCID: pat(rl, (k+1)%3), Addr: a, Other: a, Rel: "same",
						MaxAgeNs: int64(time.Hour), HSIdleNs: int64(5 * time.Second)}
					u.Case()
					v := inBubble(t, "token-cid-exhaustive", func() *vf.Verdict { return checkTokenCase(c, vf.Scratch()) })
					if v != nil {
						if vf.U("token-roundtrip").Report(v, c) {
							t.Fatalf("VIOLATION %s: %s (case %+v)", v.Sig, v.Detail, c)
						}
					}
					u.NonTrivial(ai, k, ol, rl)
					if ol == 20 && rl == 0 && u.WantSample() {
						u.Sample(c)
					}
				}
			}
		}
	}
	u.Extra("exhaustive", "Retry tokens for every (original destination CID length, retry source CID length) in 0..20 x 0..20, x {all-zero, all-0xff, mixed} bytes x {UDP IPv4, UDP IPv6, string address}")
}

// ---------------------------------------------------------------------------------------------
// token-forgery

type Mutation struct {
	Kind string `json:"kind"`           // flip | setbyte | trunc | append | prepend | insert | otherkey | splice-nonce | splice-tag | splice-body | foreign-key
	Pos  int    `json:"pos,omitempty"`  // bit index (flip), byte index (setbyte, insert), new length (trunc); taken modulo the token size
	Reg  string `json:"reg,omitempty"`  // nonce | sealed | tag: Pos is relative to (and taken modulo the size of) that part
	Val  byte   `json:"val,omitempty"`  // xor value for setbyte (0 is replaced by 1)
	Data []byte `json:"data,omitempty"` // bytes for append / prepend / insert
	Key2 []byte `json:"key2,omitempty"` // other key (otherkey, foreign-key); made different from the key if equal
}

type ForgeCase struct {
	Key    []byte   `json:"key"`
	Retry  bool     `json:"retry"`
	ODCID  []byte   `json:"odcid,omitempty"`
	RSCID  []byte   `json:"rscid,omitempty"`
	Victim AddrSpec `json:"victim"`   // address the genuine token was issued for
	Attack AddrSpec `json:"attacker"` // address of the party presenting the mutated token
	Mut    Mutation `json:"mut"`
}

func genMutation(t *rapid.T) Mutation {
	m := Mutation{Kind: rapid.SampledFrom([]string{"flip", "flip", "flip", "flip", "setbyte", "setbyte", "trunc", "trunc", "append", "prepend", "insert",
		"otherkey", "otherkey", "splice-nonce", "splice-tag", "splice-body", "foreign-key"}).Draw(t, "mutkind")}
	reg := func() string {
		return rapid.SampledFrom([]string{"sealed", "sealed", "sealed", "sealed", "sealed", "sealed", "nonce", "nonce", "tag", "tag"}).Draw(t, "region")
	}
	switch m.Kind {
	case "flip":
		m.Reg = reg()
		m.Pos = rapid.IntRange(0, 8*400).Draw(t, "bit")
	case "setbyte":
		m.Reg = reg()
		m.Pos = rapid.IntRange(0, 400).Draw(t, "byte")
		m.Val = rapid.Byte().Draw(t, "xor")
	case "trunc":
		m.Reg = reg()
		m.Pos = rapid.IntRange(0, 400).Draw(t, "newlen")
		if rapid.IntRange(0, 3).Draw(t, "trunc-edge") == 0 {
			// -1 .. -6 : the interesting boundaries, resolved in applyMutation
			m.Reg = ""
			m.Pos = -rapid.IntRange(1, 6).Draw(t, "edge")
		}
	case "append", "prepend", "insert":
		m.Data = rapid.SliceOfN(rapid.Byte(), 1, 40).Draw(t, "data")
		m.Reg = reg()
		m.Pos = rapid.IntRange(0, 400).Draw(t, "at")
	case "otherkey", "foreign-key":
		m.Key2 = genKey(t, "key2")
		if rapid.Bool().Draw(t, "key-onebit") {
			m.Pos = rapid.IntRange(0, 255).Draw(t, "keybit")
			m.Key2 = nil // derive from the key by flipping bit Pos
		}
	}
	return m
}

func genForgeCase(t *rapid.T) ForgeCase {
	c := ForgeCase{Key: genKey(t, "key"), Retry: rapid.Bool().Draw(t, "retry")}
	if c.Retry {
		c.ODCID = genCID(t, "odcid")
		c.RSCID = genCID(t, "rscid")
	}
	c.Victim = genAddr(t)
	if rapid.Bool().Draw(t, "attacker-is-victim") {
		c.Attack = c.Victim
	} else {
		c.Attack = genAddr(t)
	}
	c.Mut = genMutation(t)
	return c
}

// region names the part of a token that byte index i belongs to.
func region(i, n int) string {
	switch {
	case i < nonceLen:
		return "nonce"
	case i < n-tagLen:
		return "sealed"
	default:
		return "tag"
	}
}

func otherKey(key, key2 []byte, bit int) []byte {
	if key2 == nil {
		k := append([]byte(nil), key...)
		k[(bit/8)%32] ^= 1 << (bit % 8)
		return k
	}
	k := append([]byte(nil), key2...)
	if bytes.Equal(k, key) {
		k[0] ^= 1
	}
	return k
}

// applyMutation returns the mutated token and the class of the mutation. tok2 is a second valid
// token (same key, issued for the attacker's own address) used by the splice mutations.
func applyMutation(tok, tok2 []byte, m Mutation) (out []byte, class string) {
	n := len(tok)
	// resolve a region-relative position into an absolute byte (or bit) index
	abs := func(pos, unit int) int {
		lo, hi := 0, n
		switch m.Reg {
		case "nonce":
			hi = min(nonceLen, n)
		case "sealed":
			lo, hi = nonceLen, n-tagLen
		case "tag":
			lo = n - tagLen
		}
		if lo < 0 || hi <= lo || hi > n {
			lo, hi = 0, n
		}
		return lo*unit + pos%((hi-lo)*unit)
	}
	switch m.Kind {
	case "flip":
		bit := abs(m.Pos, 8)
		out = append([]byte(nil), tok...)
		out[bit/8] ^= 1 << (bit % 8)
		return out, "flip-" + region(bit/8, n)
	case "setbyte":
		i := abs(m.Pos, 1)
		x := m.Val
		if x == 0 {
			x = 1
		}
		out = append([]byte(nil), tok...)
		out[i] ^= x
		return out, "setbyte-" + region(i, n)
	case "trunc":
		l := m.Pos
		if l < 0 {
			l = []int{0, nonceLen - 1, nonceLen, nonceLen + tagLen, n - tagLen, n - 1}[(-l-1)%6]
		} else {
			l = abs(l, 1)
		}
		if l == 0 {
			return []byte{}, "trunc-empty"
		}
		return append([]byte(nil), tok[:l]...), "trunc-" + region(l, n)
	case "append":
		return append(append([]byte(nil), tok...), m.Data...), "extend-append"
	case "prepend":
		return append(append([]byte(nil), m.Data...), tok...), "extend-prepend"
	case "insert":
		i := abs(m.Pos, 1)
		out = append(append(append([]byte(nil), tok[:i]...), m.Data...), tok[i:]...)
		return out, "extend-insert-" + region(i, n)
	case "splice-nonce": // another token's nonce in front of this token's sealed part
		return append(append([]byte(nil), tok2[:nonceLen]...), tok[nonceLen:]...), "splice-nonce"
	case "splice-tag": // this token with another token's tag
		return append(append([]byte(nil), tok[:n-tagLen]...), tok2[len(tok2)-tagLen:]...), "splice-tag"
	case "splice-body": // this token's nonce and tag around the attacker's own sealed bytes
		out = append([]byte(nil), tok[:nonceLen]...)
		out = append(out, tok2[nonceLen:len(tok2)-tagLen]...)
		return append(out, tok[n-tagLen:]...), "splice-body"
	}
	return nil, m.Kind
}

// forgeOracle: whatever the mutated bytes decode to must not be accepted as proof of address for
// the victim's or the attacker's address, under the most permissive lifetime.
func forgeOracle(g *handshake.TokenGenerator, mutated []byte, class string, addrs []net.Addr, u *vf.Unit) *vf.Verdict {
	dec, err := g.DecodeToken(mutated)
	if err != nil {
		u.Class("rejected-by-decode")
		return nil
	}
	if dec == nil {
		u.Class("treated-as-absent")
		if len(mutated) != 0 {
			return vf.Bad("C14/token/forgery-accepted", "%s: DecodeToken returned (nil, nil) for %d non-empty bytes", class, len(mutated))
		}
		if quic.VerifValidateToken(dec, addrs[0], 1<<62, 1<<61) {
			return vf.Bad("C14/token/absent-accepted", "validateToken(nil) is true")
		}
		return nil
	}
	for _, a := range addrs {
		if dec.ValidateRemoteAddr(a) || serverAccepts(dec, a, 1<<62, 1<<62) || quic.VerifValidateToken(dec, a, 1<<62, 1<<61) {
			return vf.Bad("C14/token/forgery-accepted", "%s: mutated token %s decodes and is accepted as proof for %v (retry=%v odcid=%x rscid=%x sent=%v)",
				class, hex.EncodeToString(mutated), a, dec.IsRetryToken, dec.OriginalDestConnectionID.Bytes(), dec.RetrySrcConnectionID.Bytes(), dec.SentTime)
		}
	}
	u.Class("decoded-but-no-proof")
	return nil
}

func checkForgeCase(c ForgeCase, u *vf.Unit) *vf.Verdict {
	key := keyOf(c.Key)
	g := handshake.NewTokenGenerator(key)
	victim, attacker := c.Victim.Addr(), c.Attack.Addr()
	tok, err := issue(g, c.Retry, victim, c.ODCID, c.RSCID, 0)
	if err != nil {
		return vf.Bad("C14/token/issue-error", "issuing a token failed: %v", err)
	}
	// baseline: the untouched token is a proof for the victim (otherwise the case says nothing)
	if dec, err := g.DecodeToken(tok); err != nil || dec == nil || !dec.ValidateRemoteAddr(victim) {
		return vf.Bad("C14/token/valid-token-rejected", "freshly issued token does not decode/validate: %v %v", dec, err)
	}
	addrs := []net.Addr{victim, attacker}
	var mutated []byte
	var class string
	dg := g
	switch c.Mut.Kind {
	case "otherkey":
		// the genuine token presented to a server that uses another key
		k2 := otherKey(c.Key, c.Mut.Key2, c.Mut.Pos)
		dg = handshake.NewTokenGenerator(keyOf(k2))
		mutated, class = tok, "otherkey"
	case "foreign-key":
		// the attacker seals a well-formed token for the victim's address under a key of its own
		k2 := otherKey(c.Key, c.Mut.Key2, c.Mut.Pos)
		ft, err := issue(handshake.NewTokenGenerator(keyOf(k2)), c.Retry, victim, c.ODCID, c.RSCID, 0)
		if err != nil {
			return vf.Bad("C14/token/issue-error", "issuing a token failed: %v", err)
		}
		mutated, class = ft, "foreign-key"
	default:
		// second genuine token, issued to the attacker for its own address
		tok2, err := issue(g, c.Retry, attacker, c.RSCID, c.ODCID, 0)
		if err != nil {
			return vf.Bad("C14/token/issue-error", "issuing a token failed: %v", err)
		}
		mutated, class = applyMutation(tok, tok2, c.Mut)
		if bytes.Equal(mutated, tok) || bytes.Equal(mutated, tok2) {
			u.Class("mutation-was-identity")
			return nil
		}
		if c.Attack.Kind == c.Victim.Kind && attacker.String() == victim.String() {
			// both genuine tokens are for the same address: a splice that happens to decode would not
			// prove a foreign address, but it must still fail authentication, so keep the oracle.
			u.Class("attacker-at-victim-address")
		}
	}
	u.Class(class)
	if v := forgeOracle(dg, mutated, class, addrs, u); v != nil {
		return v
	}
	// non-trivial: the mutation lies inside the sealed part (or replaces the sealing key)
	switch class {
	case "flip-sealed", "setbyte-sealed", "trunc-sealed", "extend-insert-sealed", "splice-body", "splice-nonce", "splice-tag", "otherkey", "foreign-key":
		u.NonTrivial(class, c.Mut.Pos, c.Mut.Val, c.Mut.Data, c.Key[:4], c.Mut.Key2, len(tok), c.Retry)
	}
	return nil
}

func TestTokenForgery(t *testing.T) {
	vf.RunRapid(t, "token-forgery", genForgeCase, checkForgeCase)
}

// ---------------------------------------------------------------------------------------------
// native fuzz target

var (
	fuzzKey   = keyOf([]byte("verif-c14-fixed-token-protector-key!"))
	fuzzKey2  = keyOf([]byte("verif-c14-other-token-protector-key!"))
	fuzzAddrs = []net.Addr{
		&net.UDPAddr{IP: net.IP{192, 0, 2, 1}, Port: 443},
		&net.UDPAddr{IP: net.ParseIP("2001:db8::1"), Port: 443},
		&net.UDPAddr{IP: net.IP{198, 51, 100, 9}, Port: 50000},
		strAddr("client-a"),
	}
)

// FuzzTokenMutation: tok is any byte string (the seeds are genuine tokens under fuzzKey); if it is a
// genuine token, the mutation (kind, pos, val, extra) of it must never be accepted as a proof, and
// neither must tok itself under another key.
func FuzzTokenMutation(f *testing.F) {
	if vf.ReplayMode() {
		// the driver replays a recorded failure by running this target as a plain test: run the recorded
		// case once instead of the seed corpus
		f.Add([]byte{}, uint8(0), uint16(0), byte(0), []byte{})
		done := false
		f.Fuzz(func(t *testing.T, _ []byte, _ uint8, _ uint16, _ byte, _ []byte) {
			if !done {
				done = true
				replayFuzzCase(t)
			}
		})
		return
	}
	u := vf.U("token-fuzz")
	g := handshake.NewTokenGenerator(fuzzKey)
	g2 := handshake.NewTokenGenerator(fuzzKey2)
	for i, a := range fuzzAddrs[:4] {
		if a == fuzzAddrs[2] {
			continue // the third address never gets a token: it is the pure attacker
		}
		nt, err := g.NewToken(a, time.Duration(i)*time.Millisecond)
		if err != nil {
			f.Fatal(err)
		}
		rt, err := g.NewRetryToken(a, cidOf(bytes.Repeat([]byte{0xa0 + byte(i)}, 8+4*i)), cidOf(bytes.Repeat([]byte{0xb0 + byte(i)}, 4*i)))
		if err != nil {
			f.Fatal(err)
		}
		for _, tk := range [][]byte{nt, rt} {
			f.Add(tk, uint8(0), uint16(8*40), byte(1), []byte{})             // flip inside the sealed part
			f.Add(tk, uint8(0), uint16(3), byte(0), []byte{})                // flip in the nonce
			f.Add(tk, uint8(0), uint16(8*(nonceLen-1)+7), byte(0), []byte{}) // flip the last nonce bit
			f.Add(tk, uint8(0), uint16(8*(len(tk)-1)), byte(0), []byte{})    // flip in the tag
			f.Add(tk, uint8(1), uint16(len(tk)-1), byte(0), []byte{})        // truncate by one
			f.Add(tk, uint8(1), uint16(nonceLen), byte(0), []byte{})         // nonce only
			f.Add(tk, uint8(2), uint16(0), byte(0), []byte{0})               // append
			f.Add(tk, uint8(3), uint16(40), byte(0x80), []byte{})            // set byte
			f.Add(tk, uint8(4), uint16(33), byte(0), []byte{1, 2, 3})        // insert
			f.Add(tk, uint8(5), uint16(0), byte(0), []byte{})                // other key only
		}
	}
	// hostile constants
	f.Add([]byte{}, uint8(0), uint16(0), byte(0), []byte{})
	f.Add(make([]byte, nonceLen), uint8(2), uint16(0), byte(0), make([]byte, tagLen))
	f.Add(make([]byte, nonceLen+tagLen), uint8(0), uint16(0), byte(0), []byte{})
	f.Add(bytes.Repeat([]byte{0xff}, 100), uint8(1), uint16(50), byte(0), []byte{})

	f.Fuzz(func(t *testing.T, tok []byte, kind uint8, pos uint16, val byte, extra []byte) {
		u.Case()
		c := FuzzCase{Tok: tok, Kind: kind, Pos: pos, Val: val, Extra: extra}
		if v := vf.Guard("token-fuzz", func() *vf.Verdict { return fuzzBody(g, g2, c, u) }); v != nil {
			if u.Report(v, c) {
				t.Fatalf("VIOLATION %s: %s", v.Sig, v.Detail)
			}
		}
	})
}

// FuzzCase is one input of FuzzTokenMutation.
type FuzzCase struct {
	Tok   []byte `json:"tok"`
	Kind  uint8  `json:"kind"`
	Pos   uint16 `json:"pos"`
	Val   byte   `json:"val"`
	Extra []byte `json:"extra,omitempty"`
}

// replayFuzzCase re-runs a failure recorded by FuzzTokenMutation (unit token-fuzz).
func replayFuzzCase(t *testing.T) {
	raw, ok := vf.ReplayCase(t, "token-fuzz")
	if !ok {
		t.Skip("replay file is for another unit")
	}
	var c FuzzCase
	if err := json.Unmarshal(raw, &c); err != nil {
		t.Fatalf("bad replay case: %v", err)
	}
	u := vf.U("token-fuzz")
	u.Case()
	g, g2 := handshake.NewTokenGenerator(fuzzKey), handshake.NewTokenGenerator(fuzzKey2)
	if v := vf.Guard("token-fuzz", func() *vf.Verdict { return fuzzBody(g, g2, c, u) }); v != nil {
		u.Fail(t, v, c)
	}
}

func fuzzBody(g, g2 *handshake.TokenGenerator, c FuzzCase, u *vf.Unit) *vf.Verdict {
	tok, kind, pos, val, extra := c.Tok, c.Kind, c.Pos, c.Val, c.Extra
	base, err := g.DecodeToken(tok)
	valid := err == nil && base != nil
	var mutated []byte
	class := ""
	if len(tok) > 0 {
		switch kind % 6 {
		case 0:
			mutated, class = applyMutation(tok, nil, Mutation{Kind: "flip", Pos: int(pos)})
		case 1:
			mutated, class = applyMutation(tok, nil, Mutation{Kind: "trunc", Pos: int(pos)})
		case 2:
			if len(extra) > 0 {
				mutated, class = applyMutation(tok, nil, Mutation{Kind: "append", Data: extra})
			}
		case 3:
			mutated, class = applyMutation(tok, nil, Mutation{Kind: "setbyte", Pos: int(pos), Val: val})
		case 4:
			if len(extra) > 0 {
				mutated, class = applyMutation(tok, nil, Mutation{Kind: "insert", Pos: int(pos), Data: extra})
			}
		case 5:
		}
	}
	if !valid {
		// Not a genuine token: nothing is known about what a mutation of it may turn into (it may turn
		// back into a seed), so for the bytes themselves only totality is checked.
		u.Class("base-invalid")
		if mutated != nil {
			_, _ = g.DecodeToken(mutated)
		}
		if len(tok) == 0 {
			return nil
		}
		// Use the bytes as a multi-byte mutation instead: issue a genuine token here and xor tok over it
		// starting at pos (wrapping), optionally followed by a truncation / extension. The result must not
		// be accepted unless it is the genuine token again.
		a := fuzzAddrs[int(kind>>4)%2]
		var genuine []byte
		if val&1 == 0 {
			genuine, err = g.NewToken(a, 0)
		} else {
			genuine, err = g.NewRetryToken(a, cidOf(extra[:min(len(extra), 20)]), cidOf(tok[:min(len(tok), 20)]))
		}
		if err != nil {
			return vf.Bad("C14/token/issue-error", "issuing a token failed: %v", err)
		}
		overlaid := append([]byte(nil), genuine...)
		for j, b := range tok {
			overlaid[(int(pos)+j)%len(overlaid)] ^= b
		}
		class = "overlay"
		if kind%6 == 1 { // and truncate
			overlaid, _ = applyMutation(overlaid, nil, Mutation{Kind: "trunc", Pos: int(val)})
			class = "overlay+trunc"
		} else if kind%6 == 2 && len(extra) > 0 {
			overlaid = append(overlaid, extra...)
			class = "overlay+append"
		}
		if bytes.Equal(overlaid, genuine) {
			return nil
		}
		if v := forgeOracle(g, overlaid, class, fuzzAddrs, vf.Scratch()); v != nil {
			v.Detail += fmt.Sprintf(" (genuine token %x)", genuine)
			return v
		}
		u.Class(class)
		return nil
	}
	u.Class("base-genuine")
	if d2, err := g2.DecodeToken(tok); err == nil && d2 != nil {
		for _, a := range fuzzAddrs {
			if d2.ValidateRemoteAddr(a) {
				return vf.Bad("C14/token/forgery-accepted", "otherkey: genuine token decodes under another key and validates for %v: %x", a, tok)
			}
		}
	}
	if mutated == nil || bytes.Equal(mutated, tok) {
		return nil
	}
	if v := forgeOracle(g, mutated, class, fuzzAddrs, vf.Scratch()); v != nil {
		v.Detail += fmt.Sprintf(" (base token %x)", tok)
		return v
	}
	u.Class(class)
	return nil
}
