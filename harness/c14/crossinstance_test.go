package c14

// Unit "token-cross-instance": tokens are meant to outlive the process that issued them (Transport.TokenGeneratorKey:
// servers that are authoritative for the same domain share the key; a restarted server keeps it), so what a token
// says about its issue time must not depend on anything private to the issuing process. Each case issues a batch of
// generated tokens in this process and has them decoded by a second instance: the same test binary started later
// (-test.run TestTokenChild), i.e. a process with its own start time and clock bases. Oracle (metamorphic: instance B
// must read what instance A wrote): B decodes every token without error, reports the issue instant A bracketed with
// its wall clock (t0 <= SentTime <= t1, +-5 ms tolerance for a stepping wall clock), the same kind, connection IDs and
// address verdicts as A's own decoder, and B's server predicate accepts / rejects it like A's at a lifetime well
// above and well below the token's age.

import (
	"bytes"
	"encoding/json"
	"fmt"
	"net"
	"os"
	"os/exec"
	"sync"
	"testing"
	"time"

	quic "github.com/refraction-networking/uquic"
	"github.com/refraction-networking/uquic/internal/handshake"
	"github.com/refraction-networking/uquic/verif/vf"
	"pgregory.net/rapid"
)

type XToken struct {
	Retry bool     `json:"retry"`
	ODCID []byte   `json:"odcid,omitempty"`
	RSCID []byte   `json:"rscid,omitempty"`
	RTTNs int64    `json:"rtt_ns,omitempty"`
	Addr  AddrSpec `json:"addr"`
	Other AddrSpec `json:"other"`
}

type XCase struct {
	Key    []byte   `json:"key"`
	Tokens []XToken `json:"tokens"`
}

type xChildIn struct {
	Key    []byte   `json:"key"`
	Tokens [][]byte `json:"tokens"`
	Addrs  []string `json:"addrs"` // issuing address per token (AddrSpec JSON)
	Others []string `json:"others"`
}

type xDecoded struct {
	Err        string `json:"err,omitempty"`
	SentNs     int64  `json:"sent_ns"`
	Retry      bool   `json:"retry"`
	ODCID      []byte `json:"odcid,omitempty"`
	RSCID      []byte `json:"rscid,omitempty"`
	AddrOK     bool   `json:"addr_ok"`
	OtherOK    bool   `json:"other_ok"`
	AcceptLong bool   `json:"accept_long"` // server predicate with lifetimes of an hour
	AcceptTiny bool   `json:"accept_tiny"` // server predicate with lifetimes of a nanosecond
}

func genXCase(t *rapid.T) XCase {
	c := XCase{Key: rapid.SliceOfN(rapid.Byte(), 32, 32).Draw(t, "key")}
	n := rapid.IntRange(1, 12).Draw(t, "n")
	for i := 0; i < n; i++ {
		tc := genTokenCase(t)
		c.Tokens = append(c.Tokens, XToken{Retry: tc.Retry, ODCID: tc.ODCID, RSCID: tc.RSCID, RTTNs: tc.RTTNs, Addr: tc.Addr, Other: tc.Other})
	}
	return c
}

func decodeAll(key []byte, toks [][]byte, addrs, others []net.Addr) []xDecoded {
	g := handshake.NewTokenGenerator(keyOf(key))
	out := make([]xDecoded, len(toks))
	for i, tok := range toks {
		d, err := g.DecodeToken(tok)
		if err != nil || d == nil {
			out[i].Err = fmt.Sprintf("token=%v err=%v", d, err)
			continue
		}
		out[i] = xDecoded{SentNs: d.SentTime.UnixNano(), Retry: d.IsRetryToken, ODCID: d.OriginalDestConnectionID.Bytes(), RSCID: d.RetrySrcConnectionID.Bytes(),
			AddrOK: d.ValidateRemoteAddr(addrs[i]), OtherOK: d.ValidateRemoteAddr(others[i]),
			AcceptLong: quic.VerifValidateToken(d, addrs[i], time.Hour, time.Hour),
			AcceptTiny: quic.VerifValidateToken(d, addrs[i], time.Nanosecond, time.Nanosecond)}
	}
	return out
}

// TestTokenChild is the second instance: it reads a batch from stdin and writes what it decoded to stdout.
func TestTokenChild(t *testing.T) {
	if os.Getenv("VERIF_C14_CHILD") != "1" {
		t.Skip("helper process of TestTokenCrossInstance")
	}
	var in xChildIn
	if err := json.NewDecoder(os.Stdin).Decode(&in); err != nil {
		fmt.Printf("C14CHILD-ERROR %v\n", err)
		return
	}
	addrs, others := make([]net.Addr, len(in.Tokens)), make([]net.Addr, len(in.Tokens))
	for i := range in.Tokens {
		var a, o AddrSpec
		json.Unmarshal([]byte(in.Addrs[i]), &a)
		json.Unmarshal([]byte(in.Others[i]), &o)
		addrs[i], others[i] = a.Addr(), o.Addr()
	}
	b, _ := json.Marshal(decodeAll(in.Key, in.Tokens, addrs, others))
	fmt.Printf("C14CHILD-RESULT %s\n", b)
}

var apartOnce sync.Once

func checkXCase(c XCase, u *vf.Unit) *vf.Verdict {
	// the second instance must not share this process' start instant
	apartOnce.Do(func() { time.Sleep(80 * time.Millisecond) })
	g := handshake.NewTokenGenerator(keyOf(c.Key))
	in := xChildIn{Key: c.Key}
	var addrs, others []net.Addr
	var t0, t1 []time.Time
	for _, x := range c.Tokens {
		a, o := x.Addr.Addr(), x.Other.Addr()
		before := time.Now()
		tok, err := issue(g, x.Retry, a, x.ODCID, x.RSCID, time.Duration(x.RTTNs))
		after := time.Now()
		if err != nil {
			return vf.Bad("C14/token/issue-error", "issuing a token failed: %v", err)
		}
		in.Tokens = append(in.Tokens, tok)
		aj, _ := json.Marshal(x.Addr)
		oj, _ := json.Marshal(x.Other)
		in.Addrs, in.Others = append(in.Addrs, string(aj)), append(in.Others, string(oj))
		addrs, others = append(addrs, a), append(others, o)
		t0, t1 = append(t0, before), append(t1, after)
	}
	own := decodeAll(c.Key, in.Tokens, addrs, others)

	inJSON, _ := json.Marshal(in)
	cmd := exec.Command(os.Args[0], "-test.run", "^TestTokenChild$", "-test.count=1", "-test.timeout=60s", "-verif.tier="+vf.Tier())
	cmd.Env = append(os.Environ(), "VERIF_C14_CHILD=1", "VERIF_STATS=", "VERIF_JOURNAL=")
	cmd.Stdin = bytes.NewReader(inJSON)
	outB, err := cmd.Output()
	if err != nil {
		return vf.Bad("C14/harness/child", "second instance failed: %v (%s)", err, string(outB))
	}
	var theirs []xDecoded
	found := false
	for _, line := range bytes.Split(outB, []byte("\n")) {
		if rest, ok := bytes.CutPrefix(line, []byte("C14CHILD-RESULT ")); ok {
			if err := json.Unmarshal(rest, &theirs); err != nil {
				return vf.Bad("C14/harness/child", "second instance: bad output %v", err)
			}
			found = true
		}
	}
	if !found || len(theirs) != len(own) {
		return vf.Bad("C14/harness/child", "second instance returned %d results for %d tokens: %s", len(theirs), len(own), string(outB))
	}
	const tol = 5 * time.Millisecond
	for i, th := range theirs {
		x := c.Tokens[i]
		kind := "new-token"
		if x.Retry {
			kind = "retry"
		}
		if th.Err != "" {
			return vf.Bad("C14/token/other-instance-rejects", "%s token #%d issued here is not decoded by a second instance with the same key: %s", kind, i, th.Err)
		}
		if th.SentNs < t0[i].Add(-tol).UnixNano() || th.SentNs > t1[i].Add(tol).UnixNano() {
			return vf.Bad("C14/token/issue-time-instance-dependent", "%s token #%d was issued between %v and %v (wall clock of the issuing process); a second instance with the same key reads its issue time as %v (off by %v), the issuing process itself as %v: token lifetimes are not enforced across instances",
				kind, i, t0[i].UnixNano(), t1[i].UnixNano(), th.SentNs, time.Duration(th.SentNs-t0[i].UnixNano()), own[i].SentNs)
		}
		o := own[i]
		if th.Retry != o.Retry || !bytes.Equal(th.ODCID, o.ODCID) || !bytes.Equal(th.RSCID, o.RSCID) || th.AddrOK != o.AddrOK || th.OtherOK != o.OtherOK {
			return vf.Bad("C14/token/instances-disagree", "%s token #%d: second instance decodes %+v, the issuing instance %+v", kind, i, th, o)
		}
		// a token a few milliseconds old: within an hour, beyond a nanosecond
		if !th.AcceptLong || th.AcceptTiny {
			return vf.Bad("C14/token/lifetime-across-instances", "%s token #%d, a few ms old, at a second instance: accepted with a lifetime of 1h = %v (want true), with a lifetime of 1ns = %v (want false)", kind, i, th.AcceptLong, th.AcceptTiny)
		}
		u.Class("kind:" + kind)
	}
	u.Class("batch-decoded-by-second-instance")
	u.NonTrivial("xinst", len(c.Tokens), c.Key[:4])
	return nil
}

func TestTokenCrossInstance(t *testing.T) {
	vf.RunRapid(t, "token-cross-instance", genXCase, checkXCase)
}
