package c14

import (
	"context"
	"fmt"
	"net"
	"strings"
	"testing"
	"time"

	"pgregory.net/rapid"

	quic "github.com/refraction-networking/uquic"
	"github.com/refraction-networking/uquic/verif/refcrypto"
	"github.com/refraction-networking/uquic/verif/refwire"
	"github.com/refraction-networking/uquic/verif/sim"
	"github.com/refraction-networking/uquic/verif/specgen"
	"github.com/refraction-networking/uquic/verif/vf"
)

// C14(b): the 3x limit on the wire. The router counts bytes per direction; up to the moment the server can have
// validated the client's address (delivery of the first client datagram carrying a Handshake packet or a token)
// the bytes the server has sent must stay within 3 x the bytes delivered to it plus one datagram.

type AmpCase struct {
	Client    string      `json:"client"` // plain | spec:<base>
	LongChain bool        `json:"long_chain"`
	Retry     bool        `json:"retry,omitempty"`
	RTTms     int         `json:"rtt_ms"`
	Faults    []sim.Fault `json:"faults,omitempty"`
}

var wireT *testing.T

func genAmpCase(t *rapid.T) AmpCase {
	c := AmpCase{Client: rapid.SampledFrom([]string{"plain", "plain", "spec:chrome115", "spec:chrome146", "spec:firefoxA"}).Draw(t, "client"),
		LongChain: rapid.IntRange(0, 3).Draw(t, "long") != 0, Retry: rapid.IntRange(0, 4).Draw(t, "retry") == 0, RTTms: rapid.SampledFrom([]int{2, 20, 100}).Draw(t, "rtt")}
	n := rapid.IntRange(0, 5).Draw(t, "nfaults")
	for i := 0; i < n; i++ {
		f := sim.Fault{Dir: rapid.SampledFrom([]string{"c2s", "c2s", "c2s", "s2c"}).Draw(t, "dir"), Kind: rapid.SampledFrom([]string{"drop", "drop", "drop", "dup", "delay", "trunc"}).Draw(t, "kind")}
		f.Cls = rapid.SampledFrom([]string{"", "", "handshake", "handshake", "initial"}).Draw(t, "cls")
		f.Nth = rapid.IntRange(0, 6).Draw(t, "nth")
		switch f.Kind {
		case "dup":
			f.Arg = 1
		case "delay":
			f.Arg = rapid.SampledFrom([]int{30, 300, 1500}).Draw(t, "delay")
		case "trunc":
			f.Arg = rapid.IntRange(20, 1200).Draw(t, "len")
		}
		c.Faults = append(c.Faults, f)
	}
	return c
}

const maxDatagram = 1452

// ampOracle walks the log in time order and checks the inequality at every server send before validation.
func ampOracle(w *sim.World, clientAddrSuffix string) (v *vf.Verdict, limited bool, maxRatio float64) {
	type ev struct {
		t    time.Duration
		send bool
		n    int
		rec  *sim.Record
	}
	var evs []ev
	validated := time.Duration(1 << 62)
	for _, r := range w.Router.Log {
		if r.Forged && r.Dir == "s2c" {
			continue
		}
		if r.Dir == "s2c" {
			evs = append(evs, ev{r.T, true, r.Len, r})
			continue
		}
		if len(r.Dlv) == 0 {
			continue
		}
		n := r.Len
		if r.Mutated && strings.HasPrefix(r.Fate, "truncated:") {
			fmt.Sscanf(r.Fate, "truncated:%d", &n)
		}
		for _, d := range r.Dlv { // every delivered copy counts as received bytes
			evs = append(evs, ev{d, false, n, r})
		}
		// address validation: a Handshake packet from the client, or an Initial carrying a (Retry) token
		pk, _ := r.Pkts.([]*sim.Packet)
		for _, p := range pk {
			if p.Kind == "handshake" || (p.Kind == "initial" && len(p.Token) > 0) {
				if r.Dlv[0] < validated {
					validated = r.Dlv[0]
				}
			}
		}
	}
	for i := 1; i < len(evs); i++ {
		for j := i; j > 0 && (evs[j].t < evs[j-1].t || (evs[j].t == evs[j-1].t && !evs[j].send && evs[j-1].send)); j-- {
			evs[j], evs[j-1] = evs[j-1], evs[j]
		}
	}
	var rcvd, sent int
	for _, e := range evs {
		if e.t >= validated {
			break
		}
		if !e.send {
			rcvd += e.n
			continue
		}
		sent += e.n
		if rcvd > 0 {
			if r := float64(sent) / float64(rcvd); r > maxRatio {
				maxRatio = r
			}
		}
		if sent > 3*rcvd+maxDatagram {
			return vf.Bad("C14/wire/amplification-exceeded", "at t=%v (before any client Handshake packet or token reached the server) the server had sent %d bytes but received only %d (3x = %d, plus one datagram = %d)", e.t, sent, rcvd, 3*rcvd, 3*rcvd+maxDatagram), true, maxRatio
		}
		if sent+maxDatagram > 3*rcvd {
			limited = true
		}
	}
	return nil, limited, maxRatio
}

func checkAmpCase(c AmpCase, u *vf.Unit) *vf.Verdict {
	u.Journal(c)
	var v *vf.Verdict
	sim.Bubble(wireT, 20*time.Second, func() {
		w := sim.NewWorld(time.Duration(c.RTTms)*time.Millisecond, c.Faults, nil, nil)
		defer w.Close()
		w.Observe()
		st := &quic.Transport{Conn: w.ServerConn}
		if c.Retry {
			st.VerifySourceAddress = func(net.Addr) bool { return true }
		}
		ln, err := st.Listen(sim.ServerTLS(c.LongChain, w.ServerKeys), &quic.Config{DisablePathMTUDiscovery: true, HandshakeIdleTimeout: 4 * time.Second, MaxIdleTimeout: 8 * time.Second})
		if err != nil {
			v = vf.Bad("C14/harness/listen", "%v", err)
			st.Close()
			return
		}
		ct := &quic.Transport{Conn: w.ClientConn}
		ctx, cancel := context.WithTimeout(context.Background(), 12*time.Second)
		go func() {
			if conn, err := ln.Accept(ctx); err == nil {
				<-conn.Context().Done()
			}
		}()
		var conn *quic.Conn
		conf := &quic.Config{DisablePathMTUDiscovery: true, HandshakeIdleTimeout: 4 * time.Second, MaxIdleTimeout: 8 * time.Second}
		if strings.HasPrefix(c.Client, "spec:") {
			spec, e := specgen.Desc{Base: strings.TrimPrefix(c.Client, "spec:")}.Build()
			if e != nil {
				v = vf.Bad("C14/harness/spec", "%v", e)
			} else {
				conn, _ = (&quic.UTransport{Transport: ct, QUICSpec: spec}).Dial(ctx, sim.ServerAddr, sim.ClientTLS(w.ClientKeys), conf)
			}
		} else {
			conn, _ = ct.Dial(ctx, sim.ServerAddr, sim.ClientTLS(w.ClientKeys), conf)
		}
		if conn != nil {
			conn.CloseWithError(0, "")
		}
		cancel()
		time.Sleep(9 * time.Second) // server-side attempts that never validated run into their handshake timeout
		if v == nil {
			var limited bool
			var ratio float64
			v, limited, ratio = ampOracle(w, "")
			if v != nil {
				v.Trace = w.Router.Trace(80)
			}
			if limited {
				u.Class("server-was-limited")
				u.NonTrivial(c.Client, c.LongChain, c.Retry, strings.Join(w.Router.AppliedFaults(), ","))
				if u.WantSample() {
					u.Sample(c)
				}
			}
			if ratio > 2.5 {
				u.Class("ratio>2.5")
			}
		}
		ln.Close()
		ct.Close()
		st.Close()
	}, func(rep sim.LeakReport) {
		if v == nil {
			v = vf.Bad("C14/leak/goroutines", "%d goroutines alive:\n%s", rep.Count, rep.Dump)
		}
	})
	return v
}

func TestWireAmplification(t *testing.T) {
	wireT = t
	vf.ReplayRepeat = 20
	vf.RunRapid(t, "wire-amp", genAmpCase, checkAmpCase)
}

// ---------------------------------------------------------------------------------------------------
// an attacker-shaped client: the genuine ClientHello of a captured flight is re-framed into k Initial datagrams,
// each filled up to 1200 bytes with a coalesced packet the server cannot decrypt yet (Handshake-typed long header
// or short header garbage). The "client" never answers. Everything the server ever sends must stay within
// 3 x the bytes it received plus one datagram.

type AttackCase struct {
	Pieces int    `json:"pieces"`  // Initial datagrams the ClientHello is split into
	Filler string `json:"filler"`  // handshake | short | padding
	Size   int    `json:"size"`    // datagram size
	Seed   uint64 `json:"seed"`
}

func genAttackCase(t *rapid.T) AttackCase {
	return AttackCase{Pieces: rapid.IntRange(1, 6).Draw(t, "pieces"), Filler: rapid.SampledFrom([]string{"handshake", "handshake", "short", "padding"}).Draw(t, "filler"),
		Size: rapid.SampledFrom([]int{1200, 1252, 1350, 1452}).Draw(t, "size"), Seed: rapid.Uint64().Draw(t, "seed")}
}

func checkAttackCase(c AttackCase, u *vf.Unit) *vf.Verdict {
	u.Journal(c)
	// 1. capture a genuine flight (its ClientHello and source connection ID)
	spec, _ := specgen.Desc{Base: "firefoxA"}.Build()
	f := specgen.CaptureBlackhole(wireT, spec, nil, 100*time.Millisecond, true)
	if f.CH == nil {
		return vf.Bad("C14/harness/capture", "no ClientHello captured: %v", f.DialErr)
	}
	var scid []byte
	var version uint32
	for _, p := range f.Datagrams[0].Packets {
		if p.Kind == "initial" {
			scid, version = p.SCID, p.Version
		}
	}
	ch := f.CH.Raw
	var v *vf.Verdict
	sim.Bubble(wireT, 5*time.Second, func() {
		w := sim.NewWorld(20*time.Millisecond, nil, nil, nil)
		defer w.Close()
		w.Observe()
		st := &quic.Transport{Conn: w.ServerConn}
		ln, err := st.Listen(sim.ServerTLS(true, w.ServerKeys), &quic.Config{DisablePathMTUDiscovery: true, HandshakeIdleTimeout: 3 * time.Second, MaxIdleTimeout: 6 * time.Second})
		if err != nil {
			v = vf.Bad("C14/harness/listen", "%v", err)
			st.Close()
			return
		}
		ctx, cancel := context.WithTimeout(context.Background(), 10*time.Second)
		go func() {
			if conn, err := ln.Accept(ctx); err == nil {
				<-conn.Context().Done()
			}
		}()
		// 2. craft and send
		rnd := func(n int, salt uint64) []byte {
			b := make([]byte, n)
			s := c.Seed*2654435761 + salt | 1
			for i := range b {
				s ^= s << 13
				s ^= s >> 7
				s ^= s << 17
				b[i] = byte(s)
			}
			return b
		}
		dcid := rnd(8, 1)
		ck, _ := refcrypto.InitialKeys(version, dcid)
		per := (len(ch) + c.Pieces - 1) / c.Pieces
		for i := 0; i < c.Pieces; i++ {
			lo, hi := i*per, min((i+1)*per, len(ch))
			if lo >= hi {
				break
			}
			payload := refwire.Frame{Type: 0x06, Name: refwire.NameCrypto, Offset: uint64(lo), HasOff: true, HasLen: true, Data: ch[lo:hi]}.Append(nil)
			for len(payload) < 30 {
				payload = append(payload, 0)
			}
			h := refwire.LongHeader{Kind: refwire.LongInitial, Version: version, DCID: dcid, SCID: scid, Length: uint64(2 + len(payload) + 16)}
			hdr := refwire.AppendLongHeader(nil, h, uint64(i), 2)
			dg := refcrypto.Protect(ck, hdr, len(hdr)-2, 2, uint64(i), payload)
			rest := c.Size - len(dg)
			switch {
			case c.Filler == "handshake" && rest > 60:
				hh := refwire.LongHeader{Kind: refwire.LongHandshake, Version: version, DCID: dcid, SCID: scid, Length: uint64(rest - (7 + len(dcid) + len(scid)) - 2)}
				fh := refwire.AppendLongHeader(nil, hh, 0, 2)
				fill := append(fh, rnd(c.Size, uint64(10+i))...)
				// fix the length field so that the filler ends exactly at the datagram end
				hh.Length = uint64(rest - (len(fh) - 2))
				fh = refwire.AppendLongHeader(nil, hh, 0, 2)
				fill = append(fh, rnd(rest-len(fh), uint64(20+i))...)
				dg = append(dg, fill...)
			case c.Filler == "short" && rest > 30:
				fill := rnd(rest, uint64(30+i))
				fill[0] = 0x40 | fill[0]&0x3f
				dg = append(dg, fill...)
			default:
				// keep the Initial alone, padded INSIDE the packet to the datagram size
				pad := make([]byte, c.Size-len(dg))
				payload = append(payload, pad...)
				h.Length = uint64(2 + len(payload) + 16)
				hdr = refwire.AppendLongHeader(nil, h, uint64(i), 2)
				dg = refcrypto.Protect(ck, hdr, len(hdr)-2, 2, uint64(i), payload)
			}
			w.ClientConn.WriteTo(dg, sim.ServerAddr)
		}
		// the client address swallows everything the server sends; wait for all retransmissions
		time.Sleep(8 * time.Second)
		var rcvd, sent int
		for _, r := range w.Router.Log {
			if r.Dir == "c2s" {
				rcvd += r.Len
			} else {
				sent += r.Len
			}
		}
		ratio := float64(sent) / float64(max(rcvd, 1))
		if sent > 3*rcvd+maxDatagram {
			v = vf.Bad("C14/wire/amplification-exceeded", "a client that sent %d bytes in %d Initial datagrams (%s filler) and never answered was sent %d bytes (%.2fx; limit 3x + one datagram = %d)", rcvd, c.Pieces, c.Filler, sent, ratio, 3*rcvd+maxDatagram)
			v.Trace = w.Router.Trace(60)
		}
		if sent > 2*rcvd {
			u.Class("server-reached-2x")
			u.NonTrivial(c.Pieces, c.Filler, c.Size)
		}
		u.Class(fmt.Sprintf("filler:%s", c.Filler))
		cancel()
		ln.Close()
		st.Close()
	}, func(rep sim.LeakReport) {
		if v == nil {
			v = vf.Bad("C14/leak/goroutines", "%d goroutines alive:\n%s", rep.Count, rep.Dump)
		}
	})
	return v
}

func TestWireAmplificationAttacker(t *testing.T) {
	wireT = t
	vf.ReplayRepeat = 5
	vf.RunRapid(t, "wire-amp-attacker", genAttackCase, checkAttackCase)
}
