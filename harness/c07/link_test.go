package c07

// Unit "ackofack-link": the sent packet handler and the received packet handler wired together the way
// connection.go wires them (ReceivedPacketHandler.IgnorePacketsBelow is the sent packet handler's callback).
// Once the peer has acknowledged one of our packets that carried an ACK frame with Largest Acknowledged L, it has
// allowed us to forget everything up to L; from then on no ACK frame we generate may acknowledge a packet number
// below L+1 (property C07: "... and not below the threshold the peer allowed it to forget").
//
// The history is kept free of loss declarations (the peer always acknowledges a prefix of what is outstanding, in
// one frame, and no loss timer is run), because a packet that was declared lost is no longer tracked and its late
// acknowledgement cannot move the threshold.

import (
	"fmt"
	"testing"
	"time"

	"github.com/refraction-networking/uquic/internal/ackhandler"
	"github.com/refraction-networking/uquic/internal/monotime"
	"github.com/refraction-networking/uquic/internal/protocol"
	"github.com/refraction-networking/uquic/internal/utils"
	"github.com/refraction-networking/uquic/internal/wire"
	"github.com/refraction-networking/uquic/verif/vf"
	"pgregory.net/rapid"
)

type LinkParams struct {
	Server bool `json:"server"`
}

type LinkOp struct {
	K    string `json:"k"`             // recv | send | peerack | getack
	N    int    `json:"n,omitempty"`   // recv: number of packets; send: number of packets; peerack: how many of the outstanding packets (from the lowest)
	Gap  int    `json:"gap,omitempty"` // recv: packet numbers skipped before the burst
	Ack  bool   `json:"ack,omitempty"` // send: the first packet carries the pending ACK frame, if there is one
	Wait int    `json:"wait_ms,omitempty"`
}

type linkFrameHandler struct{}

func (linkFrameHandler) OnAcked(wire.Frame) {}
func (linkFrameHandler) OnLost(wire.Frame)  {}

type sentRec struct {
	pn      protocol.PacketNumber
	largest protocol.PacketNumber // Largest Acknowledged of the ACK frame it carried, or InvalidPacketNumber
}

type linkMachine struct {
	rph         *ackhandler.ReceivedPacketHandler
	sph         ackhandler.SentPacketHandler
	now         monotime.Time
	nextRecv    protocol.PacketNumber
	outstanding []sentRec
	threshold   protocol.PacketNumber // packets below it may be forgotten (0 = nothing)
	// bookkeeping
	thresholdMoves, acksChecked, jointAcks, withTrailing int
}

func newLinkMachine(p LinkParams) vf.Machine[LinkOp] {
	m := &linkMachine{now: monotime.Now()}
	m.rph = ackhandler.NewReceivedPacketHandler(utils.DefaultLogger)
	pers := protocol.PerspectiveClient
	if p.Server {
		pers = protocol.PerspectiveServer
	}
	m.sph = ackhandler.NewSentPacketHandler(0, 1200, utils.NewRTTStats(), &utils.ConnectionStats{}, true, false,
		m.rph.IgnorePacketsBelow, // same wiring as in connection.go
		pers, nil, utils.DefaultLogger)
	return m
}

func (m *linkMachine) Gen(t *rapid.T) LinkOp {
	kinds := []string{"recv", "recv", "send", "send", "getack"}
	if len(m.outstanding) > 0 {
		kinds = append(kinds, "peerack", "peerack")
	}
	op := LinkOp{K: rapid.SampledFrom(kinds).Draw(t, "k"), Wait: rapid.SampledFrom([]int{0, 0, 1, 30}).Draw(t, "wait")}
	switch op.K {
	case "recv":
		op.N = rapid.IntRange(1, 4).Draw(t, "n")
		op.Gap = rapid.SampledFrom([]int{0, 0, 0, 1, 3}).Draw(t, "gap")
	case "send":
		op.N = rapid.IntRange(1, 4).Draw(t, "n")
		op.Ack = rapid.IntRange(0, 3).Draw(t, "ack") != 0
	case "peerack":
		op.N = rapid.IntRange(1, len(m.outstanding)).Draw(t, "n")
	}
	return op
}

func (m *linkMachine) checkAck(ack *wire.AckFrame, what string) *vf.Verdict {
	if ack == nil {
		return nil
	}
	m.acksChecked++
	if low := ack.LowestAcked(); low < m.threshold {
		return vf.Bad("C07/ack/below-forget-threshold", "%s: ACK %v acknowledges packet numbers below %d although the peer has acknowledged a packet of ours that carried an ACK with Largest Acknowledged %d", what, ack.AckRanges, m.threshold, m.threshold-1)
	}
	return nil
}

func (m *linkMachine) Apply(op LinkOp) *vf.Verdict {
	m.now = m.now.Add(time.Duration(op.Wait) * time.Millisecond)
	switch op.K {
	case "recv":
		m.nextRecv += protocol.PacketNumber(op.Gap)
		for i := 0; i < op.N; i++ {
			if err := m.rph.ReceivedPacket(m.nextRecv, protocol.ECNNon, protocol.Encryption1RTT, m.now, true); err != nil {
				return vf.Bad("C07/harness/received-packet", "ReceivedPacket(%d): %v", m.nextRecv, err)
			}
			m.nextRecv++
		}
	case "send":
		for i := 0; i < op.N; i++ {
			largest := protocol.InvalidPacketNumber
			if i == 0 && op.Ack {
				if ack := m.rph.GetAckFrame(protocol.Encryption1RTT, m.now, false); ack != nil {
					if v := m.checkAck(ack, "send"); v != nil {
						return v
					}
					largest = ack.LargestAcked()
				}
			}
			pn := m.sph.PopPacketNumber(protocol.Encryption1RTT)
			m.sph.SentPacket(m.now, pn, largest, nil, []ackhandler.Frame{{Frame: &wire.PingFrame{}, Handler: linkFrameHandler{}}}, protocol.Encryption1RTT, protocol.ECNNon, 1200, false, false)
			m.outstanding = append(m.outstanding, sentRec{pn, largest})
		}
	case "peerack":
		if op.N > len(m.outstanding) || op.N < 1 {
			return nil
		}
		acked := m.outstanding[:op.N]
		m.outstanding = append([]sentRec(nil), m.outstanding[op.N:]...)
		ack := &wire.AckFrame{}
		carriers := 0
		for i := len(acked) - 1; i >= 0; i-- {
			pn := acked[i].pn
			if n := len(ack.AckRanges); n > 0 && ack.AckRanges[n-1].Smallest == pn+1 {
				ack.AckRanges[n-1].Smallest = pn
			} else {
				ack.AckRanges = append(ack.AckRanges, wire.AckRange{Smallest: pn, Largest: pn})
			}
			if acked[i].largest != protocol.InvalidPacketNumber {
				carriers++
				if acked[i].largest+1 > m.threshold {
					m.threshold = acked[i].largest + 1
					m.thresholdMoves++
				}
			}
		}
		if carriers > 0 && len(acked) > 1 {
			m.jointAcks++
			if acked[len(acked)-1].largest == protocol.InvalidPacketNumber {
				m.withTrailing++
			}
		}
		// the acknowledgement arrives a little later than the packets were sent (an RTT sample needs a positive time)
		m.now = m.now.Add(5 * time.Millisecond)
		if _, err := m.sph.ReceivedAck(ack, protocol.Encryption1RTT, m.now); err != nil {
			return vf.Bad("C07/harness/received-ack", "ReceivedAck(%v): %v", ack.AckRanges, err)
		}
		return m.checkAck(m.rph.GetAckFrame(protocol.Encryption1RTT, m.now, false), "after the peer's ACK")
	case "getack":
		return m.checkAck(m.rph.GetAckFrame(protocol.Encryption1RTT, m.now, op.Wait == 0), "GetAckFrame")
	}
	return nil
}

func (m *linkMachine) Finish(u *vf.Unit) *vf.Verdict {
	// one more round: new packets arrive, the ACK for them must respect the final threshold
	for i := 0; i < 2; i++ {
		if err := m.rph.ReceivedPacket(m.nextRecv, protocol.ECNNon, protocol.Encryption1RTT, m.now, true); err != nil {
			return vf.Bad("C07/harness/received-packet", "ReceivedPacket(%d): %v", m.nextRecv, err)
		}
		m.nextRecv++
	}
	if v := m.checkAck(m.rph.GetAckFrame(protocol.Encryption1RTT, m.now, false), "final ACK"); v != nil {
		return v
	}
	if m.thresholdMoves > 0 {
		u.Class("threshold-moved")
	}
	if m.jointAcks > 0 {
		u.Class("ack-carrier-acked-with-other-packets")
	}
	if m.withTrailing > 0 {
		u.Class("highest-acked-packet-carried-no-ack")
	}
	if m.thresholdMoves > 0 && m.acksChecked >= 2 {
		u.NonTrivial("link", m.thresholdMoves, m.jointAcks, m.withTrailing, fmt.Sprint(m.threshold))
	}
	return nil
}

func TestAckOfAckLink(t *testing.T) {
	vf.RunMachine(t, "ackofack-link", 40, func(t *rapid.T) LinkParams { return LinkParams{Server: rapid.Bool().Draw(t, "server")} }, newLinkMachine)
}
