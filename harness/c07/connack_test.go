//go:build go1.25

package c07

// Unit conn-acks: the CONNECTION sends the ACKs its received-packet tracker asks for, when it asks for them.
//
// rph-model / rph-exhaustive decide when the tracker (internal/ackhandler) reports an ACK as due. This unit decides
// that connection.go acts on it: the real Conn.run loop (handlePackets -> triggerSending -> maybeSendAckOnlyPacket /
// sendPackets, maybeResetTimer with the ACK alarm) runs with the real receivedPacketHandler, sentPacketHandler and
// send queue inside a testing/synctest bubble (virtual time). Built by quic.VerifNewConnAckConn
// (/repo/verif_hooks_c20.go + verif_hooks_c07.go): production newConnection after handshake confirmation; only the
// packer (asks for ACK frames exactly like packetPacker.composeNextPacket does), the sendConn and the unpacker
// (cleartext, can reject a packet like a failed AEAD open) are replaced. Datagrams are injected in batches that one
// handlePackets call finds complete (quic.VerifSendLoopConn.ReceiveBatch).
//
// Reference model: a set of received packet numbers, the forget threshold, the ack-eliciting packets not yet covered
// by an ACK with their arrival times, and the rules of RFC 9000 13.2.1 / 13.2.2 as
// internal/ackhandler/received_packet_tracker.go implements them (second ack-eliciting packet, a packet reported
// missing before, a new gap, ECN-CE -> immediately; otherwise max_ack_delay after the first one).

import (
	"context"
	"errors"
	"fmt"
	"strings"
	"sync"
	"testing"
	"testing/synctest"
	"time"

	"pgregory.net/rapid"

	quic "github.com/refraction-networking/uquic"
	"github.com/refraction-networking/uquic/internal/ackhandler"
	"github.com/refraction-networking/uquic/internal/monotime"
	"github.com/refraction-networking/uquic/internal/protocol"
	"github.com/refraction-networking/uquic/internal/qerr"
	"github.com/refraction-networking/uquic/internal/wire"
	"github.com/refraction-networking/uquic/verif/vf"
)

const (
	sigCANotImmediate = "C07/conn/immediate-ack-not-sent"
	sigCAOverdue      = "C07/conn/ack-overdue"
	sigCAContent      = "C07/conn/ack-content"
	sigCAConnError    = "C07/conn/connection-error"
	sigCAHarness      = "C07/conn/harness"
)

// ---- case ----

// CAPkt is one datagram of a batch, resolved against the model when the batch is injected.
type CAPkt struct {
	K    string `json:"k"`              // new | gap | fill | dup | bad
	G    int    `json:"g,omitempty"`    // gap: numbers skipped (1..3); fill / dup: index into the candidates
	NAE  bool   `json:"nae,omitempty"`  // not ack-eliciting (ACK-only / PADDING-only packet)
	CE   bool   `json:"ce,omitempty"`   // ECN-CE marked (otherwise alternating Not-ECT / ECT(0))
	PAck bool   `json:"pack,omitempty"` // carries the peer's ACK for everything we sent at earlier instants (new / gap only)
}

type CAStep struct {
	K     string  `json:"k"`            // b(atch) | s(leep) | d(eadline) | q(ueue) | f(ill the congestion window)
	Batch []CAPkt `json:"b,omitempty"`  // b
	Us    int64   `json:"us,omitempty"` // s: duration; d: offset to the ACK deadline (-1, 0, +1 microseconds ...)
	N     int     `json:"n,omitempty"`  // q: packets
}

type CACase struct {
	GSO   bool     `json:"gso"`
	RTTus int64    `json:"rtt_us"`
	Steps []CAStep `json:"steps"`
}

func genCAPkt(t *rapid.T) CAPkt {
	p := CAPkt{K: rapid.SampledFrom([]string{"new", "new", "new", "new", "gap", "gap", "fill", "fill", "dup", "dup", "bad"}).Draw(t, "pk")}
	switch p.K {
	case "gap":
		p.G = rapid.IntRange(1, 3).Draw(t, "g")
	case "fill", "dup":
		p.G = rapid.IntRange(0, 9).Draw(t, "g")
	}
	if p.K != "dup" && p.K != "bad" {
		p.NAE = rapid.IntRange(0, 4).Draw(t, "nae") == 0
		p.CE = rapid.IntRange(0, 9).Draw(t, "ce") == 0
		if p.K != "fill" {
			p.PAck = rapid.IntRange(0, 3).Draw(t, "pack") == 0
		}
	}
	return p
}

func genCACase(t *rapid.T) CACase {
	c := CACase{GSO: rapid.Bool().Draw(t, "gso")}
	switch rapid.IntRange(0, 3).Draw(t, "rttkind") {
	case 0:
		c.RTTus = 0
	case 1:
		c.RTTus = rapid.Int64Range(200, 5000).Draw(t, "rtt")
	default:
		c.RTTus = rapid.Int64Range(5000, 400000).Draw(t, "rtt")
	}
	n := rapid.IntRange(1, 16).Draw(t, "nsteps")
	for i := 0; i < n; i++ {
		s := CAStep{K: rapid.SampledFrom([]string{"b", "b", "b", "b", "b", "s", "s", "d", "d", "q", "f"}).Draw(t, "kind")}
		switch s.K {
		case "b":
			m := rapid.SampledFrom([]int{1, 1, 2, 2, 3, 3, 4, 5, 8}).Draw(t, "blen")
			for j := 0; j < m; j++ {
				s.Batch = append(s.Batch, genCAPkt(t))
			}
			// bias: the batch ends with a datagram the connection drops
			switch rapid.IntRange(0, 5).Draw(t, "tail") {
			case 0:
				s.Batch = append(s.Batch, CAPkt{K: "dup", G: rapid.IntRange(0, 9).Draw(t, "g")})
			case 1:
				s.Batch = append(s.Batch, CAPkt{K: "bad"})
			}
		case "s":
			s.Us = rapid.SampledFrom([]int64{0, 1, 100, 1000, 10000, 24999, 25000, 25001, 60000, 400000}).Draw(t, "us")
		case "d":
			s.Us = rapid.SampledFrom([]int64{-1000, -1, 0, 0, 0, 1, 1000}).Draw(t, "off")
		case "q":
			s.N = rapid.SampledFrom([]int{1, 1, 2, 3, 6}).Draw(t, "n")
		}
		c.Steps = append(c.Steps, s)
	}
	return c
}

// ---- harness ----

type caSent struct {
	pn         protocol.PacketNumber
	t          monotime.Time
	ae         bool
	ackLargest int64 // largest acknowledged of the ACK frame it carried, -1: none
	settled    bool  // acknowledged or declared lost (sent packet handler callbacks)
	peerAckd   bool
}

type caHarness struct {
	c    *CACase
	conn *quic.VerifSendLoopConn
	sph  ackhandler.SentPacketHandler
	t0   monotime.Time

	mu   sync.Mutex
	viol *vf.Verdict

	// local sending
	queue int // full-size data packets waiting
	sent  []*caSent
	calls int
	instT monotime.Time

	// model of the receive side
	received   map[int64]bool
	largest    int64
	threshold  int64 // packets below are forgotten (IgnorePacketsBelow)
	cbThresh   int64 // the same, derived from the OnAcked callbacks (cross-check of the prediction)
	pending    map[int64]monotime.Time
	aeSince    int
	immediate  bool
	lastAck    []wire.AckRange
	haveLast   bool
	ect0, ce   uint64
	ecnToggle  bool
	nextRcvSeq int

	acksSent  int
	lastAckAt monotime.Time

	cls map[string]bool
	sig []byte
}

func (h *caHarness) rel(t monotime.Time) string {
	if t.IsZero() {
		return "none"
	}
	return t.Sub(h.t0).String()
}

func (h *caHarness) fail(sig, format string, args ...any) {
	if h.viol == nil {
		h.viol = vf.Bad(sig, format, args...)
	}
}

// sendConn
func (h *caHarness) Capabilities() (df, gso, ecn bool)        { return false, h.c.GSO, false }
func (h *caHarness) Write([]byte, uint16, protocol.ECN) error { return nil }

type caFrameHandler struct {
	h *caHarness
	p *caSent
}

func (f caFrameHandler) OnAcked(wire.Frame) {
	f.h.mu.Lock()
	defer f.h.mu.Unlock()
	if f.p.settled {
		return
	}
	f.p.settled = true
	// sentPacketHandler.detectAndRemoveAckedPackets: ignorePacketsBelow(p.LargestAcked + 1)
	if f.p.ackLargest >= 0 {
		f.h.cbThresh = max(f.h.cbThresh, f.p.ackLargest+1)
	}
}

func (f caFrameHandler) OnLost(wire.Frame) {
	f.h.mu.Lock()
	defer f.h.mu.Unlock()
	if f.p.settled {
		return
	}
	f.p.settled = true
	f.h.queue++ // the frames are sent again (retransmission queue)
}

func modelRanges(set map[int64]bool, threshold int64) []wire.AckRange {
	var rs [][2]int64
	m := map[int64]bool{}
	for k := range set {
		if k >= threshold {
			m[k] = true
		}
	}
	rs = ranges(m)
	out := make([]wire.AckRange, 0, len(rs))
	for i := len(rs) - 1; i >= 0; i-- {
		out = append(out, wire.AckRange{Smallest: protocol.PacketNumber(rs[i][0]), Largest: protocol.PacketNumber(rs[i][1])})
	}
	return out
}

// tookAck judges an ACK frame the connection is about to send and updates the model. Caller holds h.mu.
func (h *caHarness) tookAck(f *wire.AckFrame, now monotime.Time, how string) int64 {
	want := modelRanges(h.received, h.threshold)
	got := f.AckRanges
	same := len(want) == len(got)
	for i := 0; same && i < len(got); i++ {
		same = want[i] == got[i]
	}
	if !same {
		h.fail(sigCAContent, "%s at t=%v: ACK ranges %v, but the packets received and not below the forget threshold %d are %v", how, h.rel(now), got, h.threshold, want)
	} else if f.ECNCE != h.ce || f.ECT0 != h.ect0 || f.ECT1 != 0 {
		h.fail(sigCAContent, "%s at t=%v: ACK reports ECT0=%d ECT1=%d CE=%d, received were ECT0=%d ECT1=0 CE=%d", how, h.rel(now), f.ECT0, f.ECT1, f.ECNCE, h.ect0, h.ce)
	}
	if len(h.pending) > 0 {
		var oldest monotime.Time
		for _, at := range h.pending {
			if oldest.IsZero() || at.Before(oldest) {
				oldest = at
			}
		}
		switch {
		case h.immediate:
			h.cls["immediate-ack-due"] = true
			if oldest != now {
				h.cls["immediate-ack-covers-older-packet"] = true
			}
		case now == oldest.Add(protocol.MaxAckDelay):
			h.cls["delayed-ack-at-alarm"] = true
		case now.Before(oldest.Add(protocol.MaxAckDelay)):
			h.cls["ack-before-alarm(piggybacked-or-early)"] = true
		}
	}
	h.pending = map[int64]monotime.Time{}
	h.aeSince = 0
	h.immediate = false
	h.lastAck = append(h.lastAck[:0], got...)
	h.haveLast = true
	h.acksSent++
	h.lastAckAt = now
	if len(got) == 0 {
		return -1
	}
	return int64(got[0].Largest)
}

func (h *caHarness) ping(p *caSent) ackhandler.Frame {
	return ackhandler.Frame{Frame: &wire.PingFrame{}, Handler: caFrameHandler{h: h, p: p}}
}

func (h *caHarness) spin(now monotime.Time) bool {
	if now != h.instT {
		h.instT, h.calls = now, 0
	}
	h.calls++
	if h.calls == 20000 {
		h.fail(sigCAHarness, "the run loop called the packer 20000 times in one virtual instant")
		go h.conn.Destroy(errors.New("verif: busy loop"))
	}
	return h.calls >= 20000
}

const caAckOnlySize = 40

// AppendPacket mirrors packetPacker.composeNextPacket for the 1-RTT level: with data an ACK is added whenever there
// is something new to acknowledge, without data only if an ACK is queued or its alarm expired.
func (h *caHarness) AppendPacket(pn protocol.PacketNumber, maxSize protocol.ByteCount, _ monotime.Time) (quic.VerifShortHeaderPacket, bool) {
	h.mu.Lock()
	defer h.mu.Unlock()
	now := monotime.Now()
	if h.spin(now) {
		return quic.VerifShortHeaderPacket{}, false
	}
	hasData := h.queue > 0
	ack := h.conn.GetAckFrame(now, !hasData)
	if !hasData && ack == nil {
		return quic.VerifShortHeaderPacket{}, false
	}
	s := &caSent{pn: pn, t: now, ae: hasData, ackLargest: -1}
	if ack != nil {
		s.ackLargest = h.tookAck(ack, now, "AppendPacket")
	}
	h.sent = append(h.sent, s)
	if !hasData {
		h.cls["ack-from-send-loop"] = true
		return quic.VerifShortHeaderPacket{Ack: ack, Length: caAckOnlySize}, true
	}
	h.queue--
	if ack != nil {
		h.cls["ack-piggybacked"] = true
	}
	return quic.VerifShortHeaderPacket{Frames: []ackhandler.Frame{h.ping(s)}, Ack: ack, Length: maxSize}, true
}

func (h *caHarness) PackAckOnlyPacket(pn protocol.PacketNumber, _ protocol.ByteCount, _ monotime.Time) (quic.VerifShortHeaderPacket, bool) {
	h.mu.Lock()
	defer h.mu.Unlock()
	now := monotime.Now()
	if h.spin(now) {
		return quic.VerifShortHeaderPacket{}, false
	}
	ack := h.conn.GetAckFrame(now, true)
	if ack == nil {
		return quic.VerifShortHeaderPacket{}, false
	}
	s := &caSent{pn: pn, t: now, ackLargest: -1}
	s.ackLargest = h.tookAck(ack, now, "PackAckOnlyPacket")
	h.sent = append(h.sent, s)
	h.cls["ack-only-packet"] = true
	return quic.VerifShortHeaderPacket{Ack: ack, Length: caAckOnlySize}, true
}

func (h *caHarness) PackPTOProbePacket(pn protocol.PacketNumber, maxSize protocol.ByteCount, addPingIfEmpty bool, _ monotime.Time) (quic.VerifShortHeaderPacket, bool) {
	h.mu.Lock()
	defer h.mu.Unlock()
	now := monotime.Now()
	if h.spin(now) {
		return quic.VerifShortHeaderPacket{}, false
	}
	hasData := h.queue > 0
	if !hasData && !addPingIfEmpty {
		// packPTOProbePacket1RTT: a packet without ack-eliciting frames is no probe
		return quic.VerifShortHeaderPacket{}, false
	}
	ack := h.conn.GetAckFrame(now, !hasData)
	s := &caSent{pn: pn, t: now, ae: true, ackLargest: -1}
	if ack != nil {
		s.ackLargest = h.tookAck(ack, now, "PackPTOProbePacket")
	}
	h.sent = append(h.sent, s)
	size := protocol.ByteCount(caAckOnlySize)
	if hasData {
		h.queue--
		size = maxSize
	}
	h.cls["pto-probe"] = true
	return quic.VerifShortHeaderPacket{Frames: []ackhandler.Frame{h.ping(s)}, Ack: ack, Length: size}, true
}

func (h *caHarness) PackMTUProbePacket(_ protocol.PacketNumber, ping ackhandler.Frame, size protocol.ByteCount) quic.VerifShortHeaderPacket {
	return quic.VerifShortHeaderPacket{Frames: []ackhandler.Frame{ping}, Length: size} // unreachable: no DF socket
}

// caPadding is a run of PADDING frames (a packet with nothing else is not ack-eliciting).
type caPadding int

func (n caPadding) Append(b []byte, _ protocol.Version) ([]byte, error) {
	return append(b, make([]byte, int(n))...), nil
}
func (n caPadding) Length(protocol.Version) protocol.ByteCount { return protocol.ByteCount(n) }

// ---- the peer: builds a batch and feeds the model ----

func (h *caHarness) peerAckFrame(now monotime.Time) (*wire.AckFrame, int64) {
	// Everything we sent at earlier instants and the peer has not acknowledged yet, in one frame. Together with the
	// earlier frames this always covers a prefix of what we sent: no packet below the largest acknowledged is left
	// unacknowledged, so the sent packet handler never declares a packet lost because of an ACK (only PTO does, and
	// that is reported through OnLost). The forget threshold is then predictable: every packet still in the sent
	// packet history (ack-eliciting and not declared lost, or not ack-eliciting) that carried an ACK frame moves it to
	// that frame's largest acknowledged + 1 (sentPacketHandler.detectAndRemoveAckedPackets).
	newThresh := h.threshold
	n := 0
	for _, s := range h.sent {
		if !s.t.Before(now) {
			break
		}
		n++
	}
	start := 0
	for start < n && h.sent[start].peerAckd {
		start++
	}
	if start == n {
		return nil, newThresh
	}
	var rs []wire.AckRange
	for i := n - 1; i >= start; i-- {
		s := h.sent[i]
		if k := len(rs); k > 0 && rs[k-1].Smallest == s.pn+1 {
			rs[k-1].Smallest = s.pn
		} else {
			rs = append(rs, wire.AckRange{Smallest: s.pn, Largest: s.pn})
		}
	}
	if len(rs) > 60 {
		return nil, newThresh // does not fit one frame (many skipped packet numbers): no ACK this time
	}
	for _, s := range h.sent[start:n] {
		if (!s.ae || !s.settled) && s.ackLargest >= 0 {
			newThresh = max(newThresh, s.ackLargest+1)
		}
		s.peerAckd = true
	}
	return &wire.AckFrame{AckRanges: rs}, newThresh
}

// buildBatch resolves the batch against the model, updates the model as the connection must process it and returns
// the datagrams. Caller holds h.mu; the run loop is idle.
func (h *caHarness) buildBatch(batch []CAPkt, now monotime.Time) []quic.VerifRcvdPacket {
	var out []quic.VerifRcvdPacket
	for i, p := range batch {
		last := i == len(batch)-1
		rp := quic.VerifRcvdPacket{}
		pn := int64(-1)
		switch p.K {
		case "bad":
			rp.Undecryptable = true
			rp.PN = protocol.PacketNumber(h.largest + 1)
			rp.Frames = []wire.Frame{&wire.PingFrame{}}
			out = append(out, rp)
			h.cls["undecryptable"] = true
			if last && len(batch) > 1 {
				h.cls["batch-ends-with-undecryptable"] = true
			}
			continue
		case "new":
			pn = h.largest + 1
		case "gap":
			pn = h.largest + 1 + int64(p.G)
			if len(modelRanges(h.received, h.threshold)) >= protocol.MaxNumAckRanges-2 {
				pn = h.largest + 1 // keep the history below the range cap (rph-model covers the cap)
			}
		case "fill":
			// a late packet: a number below the largest that was not received, possibly below the forget threshold
			var cand []int64
			for x := h.largest - 1; x >= 0 && x >= h.largest-12 && len(cand) < 10; x-- {
				if !h.received[x] {
					cand = append(cand, x)
				}
			}
			if len(cand) == 0 {
				pn = h.largest + 1
			} else {
				pn = cand[p.G%len(cand)]
			}
		case "dup":
			var cand []int64
			for x := h.largest; x >= 0 && x >= h.largest-12 && len(cand) < 10; x-- {
				if h.received[x] {
					cand = append(cand, x)
				}
			}
			if len(cand) == 0 {
				pn = h.largest + 1
			} else {
				pn = cand[p.G%len(cand)]
			}
		}
		rp.PN = protocol.PacketNumber(pn)
		ae := !p.NAE
		if p.K == "dup" {
			ae = true
		}
		if p.CE {
			rp.ECN = protocol.ECNCE
		} else if h.ecnToggle = !h.ecnToggle; h.ecnToggle {
			rp.ECN = protocol.ECT0
		}
		dropped := h.received[pn] || pn < h.threshold
		// frames. The peer's ACK only rides on a packet that is a new largest: it was sent after the peer received
		// our ACK-carrying packets, so its number exceeds everything those acknowledged (causality).
		newThresh := h.threshold
		if p.PAck && pn > h.largest && !dropped {
			if f, nt := h.peerAckFrame(now); f != nil {
				rp.Frames = append(rp.Frames, f)
				newThresh = nt
				h.cls["peer-ack"] = true
			}
		}
		if ae {
			rp.Frames = append(rp.Frames, &wire.PingFrame{})
		} else if len(rp.Frames) == 0 {
			rp.Frames = append(rp.Frames, caPadding(3))
		}
		out = append(out, rp)

		// ---- model ----
		if dropped {
			if h.received[pn] {
				h.cls["duplicate"] = true
			} else {
				h.cls["late-below-threshold"] = true
			}
			if last && len(batch) > 1 {
				h.cls["batch-ends-with-duplicate"] = true
			}
			continue
		}
		if newThresh > h.threshold {
			h.threshold = newThresh
			h.cls["threshold-moved"] = true
			for x := range h.pending {
				if x < h.threshold {
					delete(h.pending, x) // the peer has seen an ACK covering it
				}
			}
		}
		prevLargest := h.largest
		h.received[pn] = true
		h.largest = max(h.largest, pn)
		switch rp.ECN {
		case protocol.ECT0:
			h.ect0++
		case protocol.ECNCE:
			h.ce++
		}
		if pn > prevLargest+1 && prevLargest >= 0 {
			h.cls["gap"] = true
		}
		if pn < prevLargest {
			h.cls["fill-or-reordered"] = true
		}
		if !ae {
			h.cls["non-ack-eliciting"] = true
			continue
		}
		h.pending[pn] = now
		h.aeSince++
		// received_packet_tracker.go shouldQueueACK
		if h.aeSince >= 2 {
			h.immediate = true
		}
		if h.haveLast && len(h.lastAck) > 0 {
			la := int64(h.lastAck[0].Largest)
			if pn < la && pn >= h.threshold && !acks(h.lastAck, pn) {
				h.immediate = true // was reported missing
				h.cls["immediate:fills-reported-gap"] = true
			}
			for x := la + 1; x < h.largest; x++ {
				if !h.received[x] {
					h.immediate = true // a new missing packet to report
					h.cls["immediate:new-gap"] = true
					break
				}
			}
		}
		if rp.ECN == protocol.ECNCE {
			h.immediate = true
			h.cls["immediate:ecn-ce"] = true
		}
	}
	return out
}

// ---- checks while the run loop is idle ----

func (h *caHarness) idle(where string, afterBatch bool) {
	h.mu.Lock()
	defer h.mu.Unlock()
	if h.viol != nil {
		return
	}
	now := monotime.Now()
	if h.cbThresh > h.threshold {
		// the callbacks only see ack-eliciting packets; they can never be ahead of the prediction
		h.fail(sigCAHarness, "%s: forget threshold predicted %d, the sent packet handler's callbacks give %d", where, h.threshold, h.cbThresh)
		return
	}
	if len(h.pending) == 0 {
		return
	}
	var oldest monotime.Time
	var oldestPN int64
	for pn, at := range h.pending {
		if oldest.IsZero() || at.Before(oldest) {
			oldest, oldestPN = at, pn
		}
	}
	mode := h.sph.SendMode(now)
	if h.immediate {
		h.fail(sigCANotImmediate, "%s: at t=%v the run loop is idle, but an ACK is due immediately and was not sent: ack-eliciting packets awaiting acknowledgement %v (%d since the last ACK), last ACK sent %v at %v, forget threshold %d; send mode %s, ack alarm %v, loss timer %v",
			where, h.rel(now), pendingKeys(h.pending), h.aeSince, h.lastAck, h.rel(h.lastAckAt), h.threshold, mode, h.rel(h.conn.AckAlarm()), h.rel(h.sph.GetLossDetectionTimeout()))
		return
	}
	if deadline := oldest.Add(protocol.MaxAckDelay); !now.Before(deadline) {
		h.fail(sigCAOverdue, "%s: at t=%v the run loop is idle, but packet %d arrived at %v and is not acknowledged %v later (max_ack_delay %v): pending %v; send mode %s, ack alarm %v, loss timer %v",
			where, h.rel(now), oldestPN, h.rel(oldest), now.Sub(oldest), protocol.MaxAckDelay, pendingKeys(h.pending), mode, h.rel(h.conn.AckAlarm()), h.rel(h.sph.GetLossDetectionTimeout()))
	}
}

func pendingKeys(m map[int64]monotime.Time) []int64 {
	mm := map[int64]int64{}
	for k := range m {
		mm[k] = 0
	}
	return keys(mm)
}

func runConnAcks(c *CACase, u *vf.Unit) *vf.Verdict {
	h := &caHarness{c: c, t0: monotime.Now(), received: map[int64]bool{}, pending: map[int64]monotime.Time{}, largest: -1, cls: map[string]bool{}}
	conf := &quic.Config{InitialPacketSize: 1252, DisablePathMTUDiscovery: true, MaxIdleTimeout: 10 * time.Minute}
	peer := &wire.TransportParameters{
		MaxIdleTimeout:          10 * time.Minute,
		MaxUDPPayloadSize:       1452,
		AckDelayExponent:        protocol.AckDelayExponent,
		MaxAckDelay:             25 * time.Millisecond,
		ActiveConnectionIDLimit: 2,
		InitialMaxData:          1 << 30,
		MaxDatagramFrameSize:    protocol.InvalidByteCount,
	}
	conn, err := quic.VerifNewConnAckConn(h, h, conf, time.Duration(c.RTTus)*time.Microsecond, peer)
	if err != nil {
		return vf.Bad(sigCAHarness, "constructing the connection: %v", err)
	}
	h.conn, h.sph = conn, conn.SentPacketHandler()
	errCh := make(chan error, 1)
	go func() { errCh <- conn.Run() }()
	synctest.Wait()

	stopped := false
	check := func(where string, afterBatch bool) bool {
		synctest.Wait()
		select {
		case <-conn.Context().Done():
			stopped = true
			h.mu.Lock()
			if cause := context.Cause(conn.Context()); !errors.Is(cause, qerr.ErrIdleTimeout) {
				h.fail(sigCAConnError, "%s: the connection closed itself: %v", where, cause)
			}
			h.mu.Unlock()
			return false
		default:
		}
		h.idle(where, afterBatch)
		return h.viol == nil
	}

	for i, s := range c.Steps {
		where := fmt.Sprintf("step %d (%s)", i, s.K)
		h.sig = append(h.sig, s.K[0])
		afterBatch := false
		switch s.K {
		case "b":
			h.mu.Lock()
			now := monotime.Now()
			if h.sph.SendMode(now) == ackhandler.SendAck {
				for _, p := range s.Batch {
					if !p.NAE && p.K != "bad" && p.K != "dup" {
						h.cls["congestion-limited-at-arrival"] = true
					}
				}
			}
			pkts := h.buildBatch(s.Batch, now)
			for _, p := range s.Batch {
				h.sig = append(h.sig, p.K[0])
			}
			if len(pkts) >= 2 {
				h.cls["batch>=2"] = true
			}
			h.mu.Unlock()
			if err := conn.ReceiveBatch(pkts); err != nil {
				h.mu.Lock()
				h.fail(sigCAHarness, "%s: %v", where, err)
				h.mu.Unlock()
			}
			afterBatch = true
		case "s":
			time.Sleep(time.Duration(s.Us) * time.Microsecond)
		case "d":
			h.mu.Lock()
			now := monotime.Now()
			var d time.Duration
			if len(h.pending) > 0 && !h.immediate {
				var oldest monotime.Time
				for _, at := range h.pending {
					if oldest.IsZero() || at.Before(oldest) {
						oldest = at
					}
				}
				d = oldest.Add(protocol.MaxAckDelay).Add(time.Duration(s.Us) * time.Microsecond).Sub(now)
				if h.sph.SendMode(now) == ackhandler.SendAck {
					h.cls["waits-for-alarm-while-congestion-limited"] = true
				}
			}
			h.mu.Unlock()
			if d > 0 {
				time.Sleep(d)
			}
		case "q":
			h.mu.Lock()
			h.queue += s.N
			h.mu.Unlock()
			conn.ScheduleSending()
		case "f":
			// fill the congestion window: queue more than a window and let the pacer release it
			h.mu.Lock()
			h.queue += 80
			h.mu.Unlock()
			conn.ScheduleSending()
			for n := 0; n < 400; n++ {
				if !check(where+" filling", false) {
					break
				}
				h.mu.Lock()
				now := monotime.Now()
				mode := h.sph.SendMode(now)
				tus := h.sph.TimeUntilSend()
				h.mu.Unlock()
				if mode != ackhandler.SendPacingLimited || !tus.After(now) {
					break
				}
				time.Sleep(tus.Sub(now))
			}
		}
		if stopped || !check(where, afterBatch) {
			break
		}
	}
	// whatever is still owed must arrive with the alarm
	if !stopped && h.viol == nil {
		time.Sleep(protocol.MaxAckDelay)
		check("end", false)
	}
	if !stopped {
		conn.Destroy(nil)
	}
	select {
	case <-errCh:
	case <-time.After(time.Hour):
		h.mu.Lock()
		h.fail(sigCAHarness, "the run loop did not return after destroy")
		h.mu.Unlock()
	}
	synctest.Wait()

	h.mu.Lock()
	defer h.mu.Unlock()
	if h.viol != nil {
		return h.viol
	}
	for k := range h.cls {
		u.Class(k)
	}
	if h.acksSent >= 2 && (h.cls["duplicate"] || h.cls["fill-or-reordered"] || h.cls["undecryptable"]) && h.cls["batch>=2"] {
		u.NonTrivial(c.GSO, string(h.sig))
	}
	return nil
}

func TestConnAcks(t *testing.T) {
	vf.ReplayRepeat = 5
	vf.RunRapid(t, "conn-acks", genCACase, func(c CACase, u *vf.Unit) (v *vf.Verdict) {
		defer func() {
			if r := recover(); r != nil && v == nil {
				s := fmt.Sprint(r)
				if len(s) > 2000 {
					s = s[:2000]
				}
				v = vf.Bad("C07/conn/bubble", "%s", strings.TrimSpace(s))
			}
		}()
		synctest.Test(t, func(*testing.T) {
			v = vf.Guard("C07/conn", func() *vf.Verdict { return runConnAcks(&c, u) })
		})
		return v
	})
}
