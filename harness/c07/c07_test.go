// C07: ACKs acknowledge only what was received; duplicates are never processed twice.
//
// Engine: stateful model-based check of ackhandler.NewReceivedPacketHandler against a
// set-based reference model (true received set per space, forget-below threshold, the
// bounded tracked history), driven by rapid and by an exhaustive enumerator over small
// packet-number universes.
package c07

import (
	"fmt"
	"sort"
	"testing"
	"time"

	"pgregory.net/rapid"

	"github.com/refraction-networking/uquic/internal/ackhandler"
	"github.com/refraction-networking/uquic/internal/monotime"
	"github.com/refraction-networking/uquic/internal/protocol"
	"github.com/refraction-networking/uquic/internal/utils"
	"github.com/refraction-networking/uquic/internal/wire"
	"github.com/refraction-networking/uquic/verif/vf"
)

func TestMain(m *testing.M) { vf.Main(m) }

// spaces: 0 Initial, 1 Handshake, 2 1-RTT
var levels = []protocol.EncryptionLevel{protocol.EncryptionInitial, protocol.EncryptionHandshake, protocol.Encryption1RTT}

type Op struct {
	Kind  string `json:"k"` // arrive | getack | ignore | drop | tick
	Space int    `json:"s,omitempty"`
	PN    int64  `json:"pn,omitempty"`
	PN2   int64  `json:"pn2,omitempty"` // ignore: number of the packet that carried the peer's ACK
	AE    bool   `json:"ae,omitempty"`
	ECN   int    `json:"ecn,omitempty"`
	DtUs  int64  `json:"dt,omitempty"`  // clock advance before the op, microseconds
	Queue bool   `json:"oiq,omitempty"` // getack: onlyIfQueued
	Now   bool   `json:"now,omitempty"` // arrive: immediately ask for a queued ACK afterwards
	// gapburst: N groups of Run consecutive packet numbers, the groups Step numbers apart (Run < Step), starting at PN:
	// N disjoint ranges from N*Run ordinary arrivals
	N    int `json:"n,omitempty"`
	Step int `json:"step,omitempty"`
	Run  int `json:"run,omitempty"`
}

type Params struct {
	Universe int64 `json:"universe"` // packet numbers are drawn from [0, Universe)
}

type spaceModel struct {
	received map[int64]bool // every pn ever accepted (true received set)
	tracked  map[int64]bool // bounded history the implementation documents (<= MaxNumAckRanges ranges, lowest dropped)
	pending  map[int64]int64
	// pending: ack-eliciting packets not yet covered by a returned ACK -> arrival time (us)
	dropped     bool
	threshold   int64 // forget-below (1-RTT only)
	lastAck     []wire.AckRange
	haveLastAck bool
	aeSinceAck  int
	mustQueue   bool // model is certain an ACK is due immediately
	largest     int64
	// eviction bookkeeping (more than MaxNumAckRanges disjoint ranges): the number of tracked ranges (maintained
	// incrementally), the watermark below which the implementation documents that it cannot tell new packets from
	// duplicates any more (max of the forget threshold and the Start of the oldest range kept by an eviction; -1 =
	// none), and the most recently evicted ranges (newest last)
	oldestAt  int64 // arrival time of the oldest entry of pending, -1 if empty
	nranges   int
	lowHint   int64 // no tracked number is below it
	watermark int64
	evicted   [][2]int64
}

type machine struct {
	h      *ackhandler.ReceivedPacketHandler
	now    int64 // us
	sp     [3]*spaceModel
	p      Params
	hadGap, hadDup, hadFill, overCap, hadIgnore bool
	cls map[string]bool // further per-case class labels
	sigv   []byte
	falseDup int
	// largest-acked values of the 1-RTT ACK frames returned so far
	ackedLargest []int64
}

func newMachine(p Params) vf.Machine[Op] {
	m := &machine{h: ackhandler.NewReceivedPacketHandler(utils.DefaultLogger), now: 1_000_000, p: p}
	for i := range m.sp {
		m.sp[i] = &spaceModel{received: map[int64]bool{}, tracked: map[int64]bool{}, pending: map[int64]int64{}, largest: -1, watermark: -1, oldestAt: -1}
	}
	m.cls = map[string]bool{}
	return m
}

func (m *machine) t() monotime.Time { return monotime.Time(m.now * 1000) }

func (m *machine) Gen(t *rapid.T) Op {
	k := rapid.SampledFrom([]string{"arrive", "arrive", "arrive", "arrive", "arrive", "arrive", "getack", "getack", "ignore", "drop", "burst", "gapburst", "late", "late", "late"}).Draw(t, "kind")
	op := Op{Kind: k}
	op.DtUs = rapid.SampledFrom([]int64{0, 0, 1, 100, 1000, 5000, 12000, 24999, 25000, 25001, 60000}).Draw(t, "dt")
	if k == "late" {
		// a late copy / a late first arrival in and around the ranges an eviction forgot; until a space has
		// evicted something, build the gaps instead
		if !m.genLate(t, &op) {
			k = "gapburst"
			op.Kind = k
		}
	}
	switch k {
	case "gapburst":
		op.Space = rapid.SampledFrom([]int{0, 1, 2, 2, 2, 2}).Draw(t, "space")
		op.PN = m.sp[op.Space].largest + 1 + int64(rapid.IntRange(0, 3).Draw(t, "gap"))
		op.Step = rapid.IntRange(2, 6).Draw(t, "step")
		op.Run = rapid.IntRange(1, op.Step-1).Draw(t, "run")
		op.N = rapid.SampledFrom([]int{3, 30, 60, 63, 64, 65, 66, 70, 100, 130, 3 * protocol.MaxNumAckRanges}).Draw(t, "n")
		op.AE = rapid.IntRange(0, 2).Draw(t, "ae") != 0
		op.Now = rapid.Bool().Draw(t, "acknow")
	case "arrive", "burst":
		op.Space = rapid.SampledFrom([]int{0, 1, 2, 2, 2, 2}).Draw(t, "space")
		sp := m.sp[op.Space]
		// bias: near the current largest (next, gap of 1..3, or an older number), or anywhere
		switch rapid.IntRange(0, 9).Draw(t, "pnmode") {
		case 0, 1, 2, 3:
			op.PN = sp.largest + 1
		case 4, 5:
			op.PN = sp.largest + 1 + int64(rapid.IntRange(1, 3).Draw(t, "gap"))
		case 6, 7:
			if sp.largest > 0 {
				op.PN = int64(rapid.Int64Range(0, sp.largest).Draw(t, "old"))
			}
		default:
			op.PN = rapid.Int64Range(0, m.p.Universe-1).Draw(t, "pn")
		}
		op.AE = rapid.IntRange(0, 3).Draw(t, "ae") != 0
		op.ECN = rapid.SampledFrom([]int{0, 0, 0, 1, 2, 3}).Draw(t, "ecn")
		op.Now = rapid.Bool().Draw(t, "acknow")
		if k == "burst" {
			op.PN = sp.largest + 2
			op.ECN = rapid.IntRange(20, 90).Draw(t, "n") // burst length, stride 2
		}
	case "getack":
		op.Space = rapid.SampledFrom([]int{0, 1, 2, 2, 2}).Draw(t, "space")
		op.Queue = rapid.Bool().Draw(t, "oiq")
	case "ignore":
		// the connection calls IgnorePacketsBelow(L+1) where L is the largest acked of an ACK frame it
		// sent earlier and that the peer acknowledged
		op.Space = 2
		if n := len(m.ackedLargest); n > 0 {
			l := m.ackedLargest[rapid.IntRange(0, n-1).Draw(t, "which")]
			op.PN = l + 1
			// ... while processing the packet that carried the peer's ACK; that packet was sent after the
			// peer received ours, so its number exceeds L. It is recorded right after its frames are handled.
			op.PN2 = l + 1 + int64(rapid.IntRange(0, 4).Draw(t, "carrier"))
			if rapid.IntRange(0, 3).Draw(t, "carrier-new-largest") != 0 {
				op.PN2 = max(op.PN2, m.sp[2].largest+1)
			}
			op.AE = rapid.Bool().Draw(t, "ae")
		} else {
			op.Kind = "tick"
		}
	case "drop":
		op.Space = rapid.IntRange(0, 1).Draw(t, "space")
	}
	return op
}

// genLate turns op into an ordinary arrival of a packet number in or around the ranges that an eviction forgot:
// first / last / inner number of the newest or of an older evicted range, the numbers between the newest evicted
// range and the oldest kept range, the watermark itself and its neighbours, a number that is still missing above the
// watermark, a number below everything.
func (m *machine) genLate(t *rapid.T, op *Op) bool {
	var cand []int
	for s, sp := range m.sp {
		if len(sp.evicted) > 0 && !sp.dropped {
			cand = append(cand, s)
		}
	}
	if len(cand) == 0 {
		return false
	}
	op.Kind = "arrive"
	op.Space = rapid.SampledFrom(cand).Draw(t, "latespace")
	sp := m.sp[op.Space]
	ne := sp.evicted[len(sp.evicted)-1]
	switch rapid.IntRange(0, 9).Draw(t, "latemode") {
	case 0:
		op.PN = ne[0]
	case 1, 2:
		op.PN = ne[1]
	case 3:
		r := ne
		for i := len(sp.evicted) - 1; i >= 0; i-- {
			if e := sp.evicted[i]; e[1]-e[0] >= 2 {
				r = [2]int64{e[0] + 1, e[1] - 1}
				break
			}
		}
		op.PN = rapid.Int64Range(r[0], r[1]).Draw(t, "inner")
	case 4:
		oe := sp.evicted[rapid.IntRange(0, len(sp.evicted)-1).Draw(t, "older")]
		op.PN = oe[rapid.IntRange(0, 1).Draw(t, "end")]
	case 5, 6:
		// between the newest evicted range and the watermark (both ends included)
		op.PN = rapid.Int64Range(ne[1], max(ne[1], sp.watermark)).Draw(t, "between")
	case 7, 8:
		// a number at or above the watermark that is still missing
		op.PN = rapid.Int64Range(max(sp.watermark, 0), max(sp.watermark, sp.largest, 0)).Draw(t, "above")
		for sp.received[op.PN] {
			op.PN++
		}
	default:
		op.PN = rapid.Int64Range(0, max(ne[0], 0)).Draw(t, "below")
	}
	op.AE = rapid.IntRange(0, 3).Draw(t, "ae") != 0
	op.Now = rapid.Bool().Draw(t, "acknow")
	return true
}

func ranges(set map[int64]bool) [][2]int64 {
	keys := make([]int64, 0, len(set))
	for k := range set {
		keys = append(keys, k)
	}
	sort.Slice(keys, func(i, j int) bool { return keys[i] < keys[j] })
	var out [][2]int64
	for _, k := range keys {
		if n := len(out); n > 0 && out[n-1][1]+1 == k {
			out[n-1][1] = k
		} else {
			out = append(out, [2]int64{k, k})
		}
	}
	return out
}

func (m *machine) arrive(op Op) *vf.Verdict {
	sp := m.sp[op.Space]
	lvl := levels[op.Space]
	if sp.dropped {
		return nil // precondition: keys are gone, the packet cannot be opened
	}
	pn := op.PN
	dup := m.h.IsPotentiallyDuplicate(protocol.PacketNumber(pn), lvl)
	wasReceived := sp.received[pn]
	if wasReceived {
		m.hadDup = true
	}
	if (sp.tracked[pn] || pn < sp.threshold) && !dup {
		return vf.Bad("C07/duplicate/not-recognised", "space %d: pn %d was received before and is within the tracked history (threshold %d) but IsPotentiallyDuplicate=false", op.Space, pn, sp.threshold)
	}
	// A packet number that was accepted once stays a (potential) duplicate for good: the ranges an eviction forgets
	// lie below the watermark the history remembers ("Packets below the oldest range we still track can't be told
	// apart from duplicates anymore", received_packet_history.go; RFC 9000 12.3: a packet MUST be discarded unless
	// the receiver is certain it has not processed that number before).
	evictedPart := ""
	if wasReceived && !sp.tracked[pn] && pn >= sp.threshold {
		for i := len(sp.evicted) - 1; i >= 0; i-- {
			if e := sp.evicted[i]; e[0] <= pn && pn <= e[1] {
				if pn == e[0] {
					m.cls["late-copy-of-evicted-range:first"] = true
					evictedPart = "first"
				}
				if pn == e[1] {
					m.cls["late-copy-of-evicted-range:last"] = true
					evictedPart += "last"
				}
				if pn > e[0] && pn < e[1] {
					m.cls["late-copy-of-evicted-range:inner"] = true
					evictedPart = "inner"
				}
				if i == len(sp.evicted)-1 {
					m.cls["late-copy-of-newest-evicted-range"] = true
				}
				break
			}
		}
		if !dup {
			return vf.Bad("C07/duplicate/evicted-not-recognised", "space %d: pn %d was received before, its range (%s number) was evicted beyond MaxNumAckRanges (watermark %d, last evicted %v), but IsPotentiallyDuplicate=false: the copy is processed a second time", op.Space, pn, evictedPart, sp.watermark, lastN(sp.evicted, 2))
		}
	}
	if !wasReceived && len(sp.evicted) > 0 {
		switch {
		case pn >= sp.watermark && pn < sp.largest:
			m.cls["late-first-arrival-above-watermark"] = true
		case pn < sp.watermark && pn > sp.evicted[len(sp.evicted)-1][1] && pn >= sp.threshold:
			m.cls["first-arrival-between-evicted-and-kept"] = true
		case pn < sp.watermark:
			m.cls["first-arrival-below-evicted"] = true
		}
	}
	// Below the watermark a never-received number may be refused (conservative; not judged). At or above it
	// the history is exact, so a first arrival must be accepted.
	if !wasReceived && pn >= sp.watermark && dup {
		return vf.Bad("C07/duplicate/new-packet-rejected", "space %d: pn %d was never received and is not below the watermark %d (threshold %d) but IsPotentiallyDuplicate=true", op.Space, pn, sp.watermark, sp.threshold)
	}
	if dup {
		return nil // the connection drops the packet unprocessed
	}
	if err := m.h.ReceivedPacket(protocol.PacketNumber(pn), protocol.ECN(op.ECN), lvl, m.t(), op.AE); err != nil {
		return vf.Bad("C07/received/error", "ReceivedPacket(%d) after IsPotentiallyDuplicate=false returned %v", pn, err)
	}
	// model update
	prevLargest := sp.largest
	sp.received[pn] = true
	if !sp.tracked[pn] {
		switch lo, hi := sp.tracked[pn-1], sp.tracked[pn+1]; {
		case !lo && !hi:
			sp.nranges++
		case lo && hi:
			sp.nranges--
		}
	}
	sp.tracked[pn] = true
	if pn > sp.largest {
		sp.largest = pn
	}
	wBefore := sp.watermark
	if pn < sp.lowHint {
		sp.lowHint = pn
	}
	if sp.nranges > protocol.MaxNumAckRanges {
		m.overCap = true
		m.cls["ranges-evicted"] = true
		for sp.nranges > protocol.MaxNumAckRanges {
			lo := sp.lowestTracked()
			hi := lo
			for sp.tracked[hi+1] {
				hi++
			}
			for x := lo; x <= hi; x++ {
				delete(sp.tracked, x)
			}
			sp.evicted = append(sp.evicted, [2]int64{lo, hi})
			sp.nranges--
			sp.lowHint = hi + 1
		}
		if len(sp.evicted) > 8 {
			sp.evicted = append(sp.evicted[:0], sp.evicted[len(sp.evicted)-8:]...)
		}
		sp.watermark = max(sp.watermark, sp.lowestTracked())
	}
	if !sp.tracked[pn] {
		// accepted (its frames are processed) and forgotten in the same call: it can never be acknowledged.
		// Legitimate only as the range-cap defence itself: the history was full and pn, not below the
		// watermark, opened a new lowest range.
		m.cls["accepted-and-evicted-at-once"] = true
		if pn < wBefore && op.AE {
			return vf.Bad("C07/ack/accepted-below-watermark-never-acked", "space %d: ack-eliciting pn %d lies below the watermark %d of an earlier eviction; it was accepted as new (IsPotentiallyDuplicate=false), processed, and dropped from the history in the same call: it is never acknowledged", op.Space, pn, wBefore)
		}
	}
	if pn > prevLargest+1 && prevLargest >= 0 {
		m.hadGap = true
	}
	if pn < prevLargest && !wasReceived {
		m.hadFill = true
	}
	if !op.AE {
		return nil
	}
	sp.pending[pn] = m.now
	if sp.oldestAt < 0 {
		sp.oldestAt = m.now // the clock never goes back
	}
	sp.aeSinceAck++
	if op.Space < 2 {
		sp.mustQueue = true
		return nil
	}
	// 1-RTT due-ness: conditions under which the model is certain an immediate ACK is required
	if sp.aeSinceAck >= 2 {
		sp.mustQueue = true
	}
	if sp.haveLastAck && len(sp.lastAck) > 0 {
		la := int64(sp.lastAck[0].Largest)
		if pn < la && pn >= sp.threshold && !acks(sp.lastAck, pn) {
			sp.mustQueue = true // fills a gap that the previous ACK reported
		}
		if pn > prevLargest { // new largest; a missing number between the last ACK's largest and pn reveals a gap
			for x := la + 1; x < pn; x++ {
				if !sp.received[x] && x >= sp.threshold {
					sp.mustQueue = true
					break
				}
			}
		}
	}
	// alarm: if no ACK is queued an alarm must be set no later than oldest pending + MaxAckDelay
	alarm := m.h.GetAlarmTimeout()
	oldest := sp.oldestAt
	deadline := monotime.Time(oldest * 1000).Add(protocol.MaxAckDelay)
	if !alarm.IsZero() {
		if alarm.After(deadline) {
			return vf.Bad("C07/due/alarm-too-late", "1-RTT pn %d: ACK alarm at +%v but the oldest unacknowledged ack-eliciting packet arrived %v ago (max ack delay %v)", pn, alarm.Sub(m.t()), time.Duration(m.now-oldest)*time.Microsecond, protocol.MaxAckDelay)
		}
		if sp.mustQueue {
			// an alarm instead of an immediate ACK
			if f := m.h.GetAckFrame(lvl, m.t(), true); f == nil {
				return vf.Bad("C07/due/not-immediate", "1-RTT pn %d (ae #%d since last ACK, lastAck=%v): an immediate ACK is required but none is queued (alarm in %v)", pn, sp.aeSinceAck, sp.lastAck, alarm.Sub(m.t()))
			} else {
				return m.gotAck(op.Space, f, true)
			}
		}
		return nil
	}
	if sp.mustQueue {
		return nil // the model is certain an ACK is queued; verified by the next retrieval
	}
	// no alarm: an ACK must be obtainable right now
	f := m.h.GetAckFrame(lvl, m.t(), true)
	if f == nil {
		return vf.Bad("C07/due/lost", "1-RTT pn %d ack-eliciting: no ACK queued and no alarm set", pn)
	}
	return m.gotAck(op.Space, f, true)
}

// lowestTracked returns the smallest tracked packet number (the set is not empty).
func (sp *spaceModel) lowestTracked() int64 {
	for x := sp.lowHint; x < sp.lowHint+64; x++ {
		if sp.tracked[x] {
			sp.lowHint = x
			return x
		}
	}
	first := true
	var lo int64
	for x := range sp.tracked {
		if first || x < lo {
			lo, first = x, false
		}
	}
	sp.lowHint = lo
	return lo
}

func lastN(rs [][2]int64, n int) [][2]int64 {
	if len(rs) > n {
		return rs[len(rs)-n:]
	}
	return rs
}

func acks(rs []wire.AckRange, pn int64) bool {
	for _, r := range rs {
		if int64(r.Smallest) <= pn && pn <= int64(r.Largest) {
			return true
		}
	}
	return false
}

func (m *machine) gotAck(space int, f *wire.AckFrame, _ bool) *vf.Verdict {
	sp := m.sp[space]
	rs := f.AckRanges
	if len(rs) == 0 {
		return vf.Bad("C07/ack/empty", "space %d: ACK frame without ranges", space)
	}
	for i, r := range rs {
		if r.Smallest > r.Largest {
			return vf.Bad("C07/ack/malformed", "space %d: range %d inverted: %v", space, i, rs)
		}
		if i > 0 && !(rs[i-1].Smallest > r.Largest+1) {
			return vf.Bad("C07/ack/malformed", "space %d: ranges not descending/disjoint/non-adjacent: %v", space, rs)
		}
		for x := int64(r.Smallest); x <= int64(r.Largest); x++ {
			if !sp.received[x] {
				return vf.Bad("C07/ack/not-received", "space %d: ACK covers pn %d which was never received; ranges %v", space, x, rs)
			}
			if x < sp.threshold {
				return vf.Bad("C07/ack/below-threshold", "space %d: ACK covers pn %d below the forget threshold %d", space, x, sp.threshold)
			}
		}
	}
	if int64(rs[0].Largest) != sp.largest && sp.largest >= sp.threshold {
		return vf.Bad("C07/ack/largest", "space %d: largest acked %d, largest received %d", space, rs[0].Largest, sp.largest)
	}
	for pn := range sp.pending {
		if sp.tracked[pn] && pn >= sp.threshold && !acks(rs, pn) {
			return vf.Bad("C07/ack/missing-pending", "space %d: ack-eliciting pn %d awaits acknowledgement and is tracked, but the ACK %v omits it", space, pn, rs)
		}
	}
	sp.pending = map[int64]int64{}
	sp.oldestAt = -1
	sp.aeSinceAck = 0
	sp.mustQueue = false
	sp.lastAck = append(sp.lastAck[:0], rs...)
	sp.haveLastAck = true
	if space == 2 {
		m.ackedLargest = append(m.ackedLargest, int64(rs[0].Largest))
	}
	return nil
}

func (m *machine) Apply(op Op) (v *vf.Verdict) {
	m.now += op.DtUs
	m.sigv = append(m.sigv, op.Kind[0], byte(op.Space), byte(op.PN), byte(op.PN>>8))
	switch op.Kind {
	case "arrive":
		if v := m.arrive(op); v != nil {
			return v
		}
		if op.Now {
			return m.getack(Op{Space: op.Space, Queue: true})
		}
	case "burst":
		for i := 0; i < op.ECN; i++ {
			if v := m.arrive(Op{Space: op.Space, PN: op.PN + int64(2*i), AE: op.AE}); v != nil {
				return v
			}
		}
	case "gapburst":
		for i := 0; i < op.N; i++ {
			for j := 0; j < op.Run; j++ {
				if v := m.arrive(Op{Space: op.Space, PN: op.PN + int64(i*op.Step+j), AE: op.AE}); v != nil {
					return v
				}
			}
		}
		if op.Now {
			return m.getack(Op{Space: op.Space, Queue: true})
		}
	case "getack":
		return m.getack(op)
	case "ignore":
		sp := m.sp[2]
		if m.h.IsPotentiallyDuplicate(protocol.PacketNumber(op.PN2), protocol.Encryption1RTT) {
			if !sp.received[op.PN2] && op.PN2 >= sp.threshold {
				m.falseDup++
			}
			return nil // carrier packet dropped before its frames are handled
		}
		m.h.IgnorePacketsBelow(protocol.PacketNumber(op.PN))
		defer func() {
			if v == nil {
				v = m.arrive(Op{Space: 2, PN: op.PN2, AE: op.AE})
			}
		}()
		if op.PN > sp.threshold {
			sp.threshold = op.PN
			m.hadIgnore = true
			for x := range sp.tracked {
				if x < op.PN {
					delete(sp.tracked, x)
				}
			}
			for x := range sp.pending {
				if x < op.PN {
					delete(sp.pending, x)
				}
			}
			sp.oldestAt = -1
			for _, at := range sp.pending {
				if sp.oldestAt < 0 || at < sp.oldestAt {
					sp.oldestAt = at
				}
			}
			sp.nranges = len(ranges(sp.tracked))
			sp.watermark = max(sp.watermark, op.PN)
		}
	case "drop":
		sp := m.sp[op.Space]
		if op.Space == 1 && !m.sp[0].dropped {
			return nil // protocol order: Initial keys are dropped before Handshake keys
		}
		if !sp.dropped {
			m.h.DropPackets(levels[op.Space])
			sp.dropped = true
			sp.pending = map[int64]int64{}
			sp.oldestAt = -1
		}
	}
	return nil
}

func (m *machine) getack(op Op) *vf.Verdict {
	sp := m.sp[op.Space]
	lvl := levels[op.Space]
	f := m.h.GetAckFrame(lvl, m.t(), op.Queue)
	if sp.dropped {
		if f != nil {
			return vf.Bad("C07/ack/after-drop", "space %d dropped but GetAckFrame returned %v", op.Space, f)
		}
		return nil
	}
	if f == nil {
		if len(sp.pending) == 0 {
			return nil
		}
		trackedPending := false
		oldest := int64(-1)
		for pn, at := range sp.pending {
			if sp.tracked[pn] && pn >= sp.threshold {
				trackedPending = true
			}
			if oldest < 0 || at < oldest {
				oldest = at
			}
		}
		_ = trackedPending
		if op.Space < 2 {
			return vf.Bad("C07/due/not-immediate", "space %d: ack-eliciting packets %v received but GetAckFrame returned nil", op.Space, keys(sp.pending))
		}
		if !op.Queue {
			return vf.Bad("C07/due/lost", "1-RTT: ack-eliciting packets %v pending but GetAckFrame(onlyIfQueued=false) returned nil", keys(sp.pending))
		}
		if sp.mustQueue {
			return vf.Bad("C07/due/not-immediate", "1-RTT: an immediate ACK is required (pending %v, ae since last ack %d, lastAck %v) but none is queued", keys(sp.pending), sp.aeSinceAck, sp.lastAck)
		}
		if m.now-oldest >= protocol.MaxAckDelay.Microseconds() {
			return vf.Bad("C07/due/late", "1-RTT: oldest pending ack-eliciting packet arrived %dus ago (>= max ack delay) but no ACK is produced", m.now-oldest)
		}
		return nil
	}
	return m.gotAck(op.Space, f, op.Queue)
}

func keys(mm map[int64]int64) []int64 {
	var out []int64
	for k := range mm {
		out = append(out, k)
	}
	sort.Slice(out, func(i, j int) bool { return out[i] < out[j] })
	return out
}

func (m *machine) Finish(u *vf.Unit) *vf.Verdict {
	// final retrieval: everything pending must be acknowledged once the delay has passed
	m.now += 30000
	for s := 0; s < 3; s++ {
		if v := m.getack(Op{Space: s, Queue: true}); v != nil {
			return v
		}
		// every tracked packet is still recognised as duplicate
		if !m.sp[s].dropped {
			for pn := range m.sp[s].tracked {
				if !m.h.IsPotentiallyDuplicate(protocol.PacketNumber(pn), levels[s]) {
					return vf.Bad("C07/duplicate/not-recognised", "space %d: pn %d tracked but not recognised as duplicate at end", s, pn)
				}
			}
			for pn := range m.sp[s].received {
				if !m.h.IsPotentiallyDuplicate(protocol.PacketNumber(pn), levels[s]) {
					return vf.Bad("C07/duplicate/evicted-not-recognised", "space %d: pn %d was received, is no longer tracked (watermark %d, threshold %d, last evicted %v) and is not recognised as duplicate at end", s, pn, m.sp[s].watermark, m.sp[s].threshold, lastN(m.sp[s].evicted, 2))
				}
			}
		}
	}
	for _, c := range []struct {
		n string
		b bool
	}{{"gap", m.hadGap}, {"dup", m.hadDup}, {"fill", m.hadFill}, {"overcap", m.overCap}, {"ignore", m.hadIgnore}} {
		if c.b {
			u.Class(c.n)
		}
	}
	for c := range m.cls {
		u.Class(c)
	}
	if m.hadFill || m.hadDup || m.overCap {
		u.NonTrivial(m.sigv)
	}
	return nil
}

func TestRPHModel(t *testing.T) {
	vf.RunMachine(t, "rph-model", 120, func(t *rapid.T) Params {
		return Params{Universe: rapid.SampledFrom([]int64{8, 40, 300, 1 << 20}).Draw(t, "universe")}
	}, newMachine)
}

// TestRPHExhaustive enumerates every arrival sequence of length <= L over the packet-number
// universe {0..U-1} x ack-eliciting flag, in two retrieval modes (ACK requested after every
// arrival / only at the end), 1-RTT and Initial spaces, with 1 ms between arrivals.
func TestRPHExhaustive(t *testing.T) {
	u := vf.U("rph-exhaustive")
	if vf.ReplayMode() {
		raw, ok := vf.ReplayCase(t, "rph-exhaustive")
		if !ok {
			t.Skip()
		}
		_ = raw
		t.Skip("exhaustive cases replay through rph-model format")
	}
	U, L := 5, 5
	if vf.Thorough() {
		U, L = 6, 6
	}
	si, sk := vf.Shard()
	alphabet := U * 2
	total := 1
	for i := 0; i < L; i++ {
		total *= alphabet
	}
	idx := 0
	for _, space := range []int{2, 0} {
		for mode := 0; mode < 2; mode++ {
			for length := 1; length <= L; length++ {
				n := 1
				for i := 0; i < length; i++ {
					n *= alphabet
				}
				for code := 0; code < n; code++ {
					idx++
					if idx%sk != si {
						continue
					}
					ops := make([]Op, 0, length)
					c := code
					distinct := map[int]bool{}
					nt := false
					maxpn := -1
					for i := 0; i < length; i++ {
						sym := c % alphabet
						c /= alphabet
						pn := sym / 2
						if distinct[pn] || pn < maxpn {
							nt = true
						}
						distinct[pn] = true
						if pn > maxpn {
							maxpn = pn
						}
						ops = append(ops, Op{Kind: "arrive", Space: space, PN: int64(pn), AE: sym%2 == 1, DtUs: 1000, Now: mode == 0})
					}
					u.Case()
					cs := vf.MachineCase[Params, Op]{Params: Params{Universe: int64(U)}, Ops: ops}
					v := vf.Guard("C07/rph-exhaustive", func() *vf.Verdict {
						m := newMachine(cs.Params)
						for _, op := range ops {
							if v := m.Apply(op); v != nil {
								return v
							}
						}
						return m.(*machine).Finish(vf.Scratch())
					})
					if v != nil {
						// failures are reported in the rph-model unit's format so that they replay
						if vf.U("rph-model").Report(v, cs) {
							t.Fatalf("VIOLATION %s: %s (case %+v)", v.Sig, v.Detail, cs)
						}
					}
					if nt {
						u.NonTrivial(space, mode, length, code)
						if u.WantSample() && code%977 == 0 {
							u.Sample(cs)
						}
					}
				}
			}
		}
	}
	u.Extra("exhaustive", fmt.Sprintf("all arrival sequences of length<=%d over pn universe 0..%d x ack-eliciting flag x {ack after each arrival, ack at end} x {1-RTT, Initial}", L, U-1))
	_ = total
}
