// C07: ACKs acknowledge only what was received; duplicates are never processed twice.
//
// Engine: stateful model-based check of ackhandler.NewReceivedPacketHandler against a
// set-based reference model (true received set per space, forget-below threshold, the
// bounded tracked history), driven by rapid and by an exhaustive enumerator over small
// packet-number universes.
package c07

import (
	"fmt"
	"sort"
	"testing"
	"time"

	"pgregory.net/rapid"

	"github.com/refraction-networking/uquic/internal/ackhandler"
	"github.com/refraction-networking/uquic/internal/monotime"
	"github.com/refraction-networking/uquic/internal/protocol"
	"github.com/refraction-networking/uquic/internal/utils"
	"github.com/refraction-networking/uquic/internal/wire"
	"github.com/refraction-networking/uquic/verif/vf"
)

func TestMain(m *testing.M) { vf.Main(m) }

// spaces: 0 Initial, 1 Handshake, 2 1-RTT
var levels = []protocol.EncryptionLevel{protocol.EncryptionInitial, protocol.EncryptionHandshake, protocol.Encryption1RTT}

type Op struct {
	Kind  string `json:"k"` // arrive | getack | ignore | drop | tick
	Space int    `json:"s,omitempty"`
	PN    int64  `json:"pn,omitempty"`
	PN2   int64  `json:"pn2,omitempty"` // ignore: number of the packet that carried the peer's ACK
	AE    bool   `json:"ae,omitempty"`
	ECN   int    `json:"ecn,omitempty"`
	DtUs  int64  `json:"dt,omitempty"`  // clock advance before the op, microseconds
	Queue bool   `json:"oiq,omitempty"` // getack: onlyIfQueued
	Now   bool   `json:"now,omitempty"` // arrive: immediately ask for a queued ACK afterwards
}

type Params struct {
	Universe int64 `json:"universe"` // packet numbers are drawn from [0, Universe)
}

type spaceModel struct {
	received map[int64]bool // every pn ever accepted (true received set)
	tracked  map[int64]bool // bounded history the implementation documents (<= MaxNumAckRanges ranges, lowest dropped)
	pending  map[int64]int64
	// pending: ack-eliciting packets not yet covered by a returned ACK -> arrival time (us)
	dropped     bool
	threshold   int64 // forget-below (1-RTT only)
	lastAck     []wire.AckRange
	haveLastAck bool
	aeSinceAck  int
	mustQueue   bool // model is certain an ACK is due immediately
	largest     int64
}

type machine struct {
	h      *ackhandler.ReceivedPacketHandler
	now    int64 // us
	sp     [3]*spaceModel
	p      Params
	hadGap, hadDup, hadFill, overCap, hadIgnore bool
	sigv   []byte
	falseDup int
	// largest-acked values of the 1-RTT ACK frames returned so far
	ackedLargest []int64
}

func newMachine(p Params) vf.Machine[Op] {
	m := &machine{h: ackhandler.NewReceivedPacketHandler(utils.DefaultLogger), now: 1_000_000, p: p}
	for i := range m.sp {
		m.sp[i] = &spaceModel{received: map[int64]bool{}, tracked: map[int64]bool{}, pending: map[int64]int64{}, largest: -1}
	}
	return m
}

func (m *machine) t() monotime.Time { return monotime.Time(m.now * 1000) }

func (m *machine) Gen(t *rapid.T) Op {
	k := rapid.SampledFrom([]string{"arrive", "arrive", "arrive", "arrive", "arrive", "arrive", "getack", "getack", "ignore", "drop", "burst"}).Draw(t, "kind")
	op := Op{Kind: k}
	op.DtUs = rapid.SampledFrom([]int64{0, 0, 1, 100, 1000, 5000, 12000, 24999, 25000, 25001, 60000}).Draw(t, "dt")
	switch k {
	case "arrive", "burst":
		op.Space = rapid.SampledFrom([]int{0, 1, 2, 2, 2, 2}).Draw(t, "space")
		sp := m.sp[op.Space]
		// bias: near the current largest (next, gap of 1..3, or an older number), or anywhere
		switch rapid.IntRange(0, 9).Draw(t, "pnmode") {
		case 0, 1, 2, 3:
			op.PN = sp.largest + 1
		case 4, 5:
			op.PN = sp.largest + 1 + int64(rapid.IntRange(1, 3).Draw(t, "gap"))
		case 6, 7:
			if sp.largest > 0 {
				op.PN = int64(rapid.Int64Range(0, sp.largest).Draw(t, "old"))
			}
		default:
			op.PN = rapid.Int64Range(0, m.p.Universe-1).Draw(t, "pn")
		}
		op.AE = rapid.IntRange(0, 3).Draw(t, "ae") != 0
		op.ECN = rapid.SampledFrom([]int{0, 0, 0, 1, 2, 3}).Draw(t, "ecn")
		op.Now = rapid.Bool().Draw(t, "acknow")
		if k == "burst" {
			op.PN = sp.largest + 2
			op.ECN = rapid.IntRange(20, 90).Draw(t, "n") // burst length, stride 2
		}
	case "getack":
		op.Space = rapid.SampledFrom([]int{0, 1, 2, 2, 2}).Draw(t, "space")
		op.Queue = rapid.Bool().Draw(t, "oiq")
	case "ignore":
		// the connection calls IgnorePacketsBelow(L+1) where L is the largest acked of an ACK frame it
		// sent earlier and that the peer acknowledged
		op.Space = 2
		if n := len(m.ackedLargest); n > 0 {
			l := m.ackedLargest[rapid.IntRange(0, n-1).Draw(t, "which")]
			op.PN = l + 1
			// ... while processing the packet that carried the peer's ACK; that packet was sent after the
			// peer received ours, so its number exceeds L. It is recorded right after its frames are handled.
			op.PN2 = l + 1 + int64(rapid.IntRange(0, 4).Draw(t, "carrier"))
			if rapid.IntRange(0, 3).Draw(t, "carrier-new-largest") != 0 {
				op.PN2 = max(op.PN2, m.sp[2].largest+1)
			}
			op.AE = rapid.Bool().Draw(t, "ae")
		} else {
			op.Kind = "tick"
		}
	case "drop":
		op.Space = rapid.IntRange(0, 1).Draw(t, "space")
	}
	return op
}

func ranges(set map[int64]bool) [][2]int64 {
	keys := make([]int64, 0, len(set))
	for k := range set {
		keys = append(keys, k)
	}
	sort.Slice(keys, func(i, j int) bool { return keys[i] < keys[j] })
	var out [][2]int64
	for _, k := range keys {
		if n := len(out); n > 0 && out[n-1][1]+1 == k {
			out[n-1][1] = k
		} else {
			out = append(out, [2]int64{k, k})
		}
	}
	return out
}

func (m *machine) arrive(op Op) *vf.Verdict {
	sp := m.sp[op.Space]
	lvl := levels[op.Space]
	if sp.dropped {
		return nil // precondition: keys are gone, the packet cannot be opened
	}
	pn := op.PN
	dup := m.h.IsPotentiallyDuplicate(protocol.PacketNumber(pn), lvl)
	wasReceived := sp.received[pn]
	if wasReceived {
		m.hadDup = true
	}
	if (sp.tracked[pn] || pn < sp.threshold) && !dup {
		return vf.Bad("C07/duplicate/not-recognised", "space %d: pn %d was received before and is within the tracked history (threshold %d) but IsPotentiallyDuplicate=false", op.Space, pn, sp.threshold)
	}
	if dup {
		return nil // the connection drops the packet unprocessed
	}
	if err := m.h.ReceivedPacket(protocol.PacketNumber(pn), protocol.ECN(op.ECN), lvl, m.t(), op.AE); err != nil {
		return vf.Bad("C07/received/error", "ReceivedPacket(%d) after IsPotentiallyDuplicate=false returned %v", pn, err)
	}
	// model update
	prevLargest := sp.largest
	sp.received[pn] = true
	sp.tracked[pn] = true
	if pn > sp.largest {
		sp.largest = pn
	}
	if rs := ranges(sp.tracked); len(rs) > protocol.MaxNumAckRanges {
		m.overCap = true
		for _, r := range rs[:len(rs)-protocol.MaxNumAckRanges] {
			for x := r[0]; x <= r[1]; x++ {
				delete(sp.tracked, x)
			}
		}
	}
	if pn > prevLargest+1 && prevLargest >= 0 {
		m.hadGap = true
	}
	if pn < prevLargest && !wasReceived {
		m.hadFill = true
	}
	if !op.AE {
		return nil
	}
	sp.pending[pn] = m.now
	sp.aeSinceAck++
	if op.Space < 2 {
		sp.mustQueue = true
		return nil
	}
	// 1-RTT due-ness: conditions under which the model is certain an immediate ACK is required
	if sp.aeSinceAck >= 2 {
		sp.mustQueue = true
	}
	if sp.haveLastAck && len(sp.lastAck) > 0 {
		la := int64(sp.lastAck[0].Largest)
		if pn < la && pn >= sp.threshold && !acks(sp.lastAck, pn) {
			sp.mustQueue = true // fills a gap that the previous ACK reported
		}
		if pn > prevLargest { // new largest; a missing number between the last ACK's largest and pn reveals a gap
			for x := la + 1; x < pn; x++ {
				if !sp.received[x] && x >= sp.threshold {
					sp.mustQueue = true
					break
				}
			}
		}
	}
	// alarm: if no ACK is queued an alarm must be set no later than oldest pending + MaxAckDelay
	alarm := m.h.GetAlarmTimeout()
	oldest := int64(-1)
	for _, at := range sp.pending {
		if oldest < 0 || at < oldest {
			oldest = at
		}
	}
	deadline := monotime.Time(oldest * 1000).Add(protocol.MaxAckDelay)
	if !alarm.IsZero() {
		if alarm.After(deadline) {
			return vf.Bad("C07/due/alarm-too-late", "1-RTT pn %d: ACK alarm at +%v but the oldest unacknowledged ack-eliciting packet arrived %v ago (max ack delay %v)", pn, alarm.Sub(m.t()), time.Duration(m.now-oldest)*time.Microsecond, protocol.MaxAckDelay)
		}
		if sp.mustQueue {
			// an alarm instead of an immediate ACK
			if f := m.h.GetAckFrame(lvl, m.t(), true); f == nil {
				return vf.Bad("C07/due/not-immediate", "1-RTT pn %d (ae #%d since last ACK, lastAck=%v): an immediate ACK is required but none is queued (alarm in %v)", pn, sp.aeSinceAck, sp.lastAck, alarm.Sub(m.t()))
			} else {
				return m.gotAck(op.Space, f, true)
			}
		}
		return nil
	}
	if sp.mustQueue {
		return nil // the model is certain an ACK is queued; verified by the next retrieval
	}
	// no alarm: an ACK must be obtainable right now
	f := m.h.GetAckFrame(lvl, m.t(), true)
	if f == nil {
		return vf.Bad("C07/due/lost", "1-RTT pn %d ack-eliciting: no ACK queued and no alarm set", pn)
	}
	return m.gotAck(op.Space, f, true)
}

func acks(rs []wire.AckRange, pn int64) bool {
	for _, r := range rs {
		if int64(r.Smallest) <= pn && pn <= int64(r.Largest) {
			return true
		}
	}
	return false
}

func (m *machine) gotAck(space int, f *wire.AckFrame, _ bool) *vf.Verdict {
	sp := m.sp[space]
	rs := f.AckRanges
	if len(rs) == 0 {
		return vf.Bad("C07/ack/empty", "space %d: ACK frame without ranges", space)
	}
	for i, r := range rs {
		if r.Smallest > r.Largest {
			return vf.Bad("C07/ack/malformed", "space %d: range %d inverted: %v", space, i, rs)
		}
		if i > 0 && !(rs[i-1].Smallest > r.Largest+1) {
			return vf.Bad("C07/ack/malformed", "space %d: ranges not descending/disjoint/non-adjacent: %v", space, rs)
		}
		for x := int64(r.Smallest); x <= int64(r.Largest); x++ {
			if !sp.received[x] {
				return vf.Bad("C07/ack/not-received", "space %d: ACK covers pn %d which was never received; ranges %v", space, x, rs)
			}
			if x < sp.threshold {
				return vf.Bad("C07/ack/below-threshold", "space %d: ACK covers pn %d below the forget threshold %d", space, x, sp.threshold)
			}
		}
	}
	if int64(rs[0].Largest) != sp.largest && sp.largest >= sp.threshold {
		return vf.Bad("C07/ack/largest", "space %d: largest acked %d, largest received %d", space, rs[0].Largest, sp.largest)
	}
	for pn := range sp.pending {
		if sp.tracked[pn] && pn >= sp.threshold && !acks(rs, pn) {
			return vf.Bad("C07/ack/missing-pending", "space %d: ack-eliciting pn %d awaits acknowledgement and is tracked, but the ACK %v omits it", space, pn, rs)
		}
	}
	sp.pending = map[int64]int64{}
	sp.aeSinceAck = 0
	sp.mustQueue = false
	sp.lastAck = append(sp.lastAck[:0], rs...)
	sp.haveLastAck = true
	if space == 2 {
		m.ackedLargest = append(m.ackedLargest, int64(rs[0].Largest))
	}
	return nil
}

func (m *machine) Apply(op Op) (v *vf.Verdict) {
	m.now += op.DtUs
	m.sigv = append(m.sigv, op.Kind[0], byte(op.Space), byte(op.PN), byte(op.PN>>8))
	switch op.Kind {
	case "arrive":
		if v := m.arrive(op); v != nil {
			return v
		}
		if op.Now {
			return m.getack(Op{Space: op.Space, Queue: true})
		}
	case "burst":
		for i := 0; i < op.ECN; i++ {
			if v := m.arrive(Op{Space: op.Space, PN: op.PN + int64(2*i), AE: op.AE}); v != nil {
				return v
			}
		}
	case "getack":
		return m.getack(op)
	case "ignore":
		sp := m.sp[2]
		if m.h.IsPotentiallyDuplicate(protocol.PacketNumber(op.PN2), protocol.Encryption1RTT) {
			if !sp.received[op.PN2] && op.PN2 >= sp.threshold {
				m.falseDup++
			}
			return nil // carrier packet dropped before its frames are handled
		}
		m.h.IgnorePacketsBelow(protocol.PacketNumber(op.PN))
		defer func() {
			if v == nil {
				v = m.arrive(Op{Space: 2, PN: op.PN2, AE: op.AE})
			}
		}()
		if op.PN > sp.threshold {
			sp.threshold = op.PN
			m.hadIgnore = true
			for x := range sp.tracked {
				if x < op.PN {
					delete(sp.tracked, x)
				}
			}
			for x := range sp.pending {
				if x < op.PN {
					delete(sp.pending, x)
				}
			}
		}
	case "drop":
		sp := m.sp[op.Space]
		if op.Space == 1 && !m.sp[0].dropped {
			return nil // protocol order: Initial keys are dropped before Handshake keys
		}
		if !sp.dropped {
			m.h.DropPackets(levels[op.Space])
			sp.dropped = true
			sp.pending = map[int64]int64{}
		}
	}
	return nil
}

func (m *machine) getack(op Op) *vf.Verdict {
	sp := m.sp[op.Space]
	lvl := levels[op.Space]
	f := m.h.GetAckFrame(lvl, m.t(), op.Queue)
	if sp.dropped {
		if f != nil {
			return vf.Bad("C07/ack/after-drop", "space %d dropped but GetAckFrame returned %v", op.Space, f)
		}
		return nil
	}
	if f == nil {
		if len(sp.pending) == 0 {
			return nil
		}
		trackedPending := false
		oldest := int64(-1)
		for pn, at := range sp.pending {
			if sp.tracked[pn] && pn >= sp.threshold {
				trackedPending = true
			}
			if oldest < 0 || at < oldest {
				oldest = at
			}
		}
		_ = trackedPending
		if op.Space < 2 {
			return vf.Bad("C07/due/not-immediate", "space %d: ack-eliciting packets %v received but GetAckFrame returned nil", op.Space, keys(sp.pending))
		}
		if !op.Queue {
			return vf.Bad("C07/due/lost", "1-RTT: ack-eliciting packets %v pending but GetAckFrame(onlyIfQueued=false) returned nil", keys(sp.pending))
		}
		if sp.mustQueue {
			return vf.Bad("C07/due/not-immediate", "1-RTT: an immediate ACK is required (pending %v, ae since last ack %d, lastAck %v) but none is queued", keys(sp.pending), sp.aeSinceAck, sp.lastAck)
		}
		if m.now-oldest >= protocol.MaxAckDelay.Microseconds() {
			return vf.Bad("C07/due/late", "1-RTT: oldest pending ack-eliciting packet arrived %dus ago (>= max ack delay) but no ACK is produced", m.now-oldest)
		}
		return nil
	}
	return m.gotAck(op.Space, f, op.Queue)
}

func keys(mm map[int64]int64) []int64 {
	var out []int64
	for k := range mm {
		out = append(out, k)
	}
	sort.Slice(out, func(i, j int) bool { return out[i] < out[j] })
	return out
}

func (m *machine) Finish(u *vf.Unit) *vf.Verdict {
	// final retrieval: everything pending must be acknowledged once the delay has passed
	m.now += 30000
	for s := 0; s < 3; s++ {
		if v := m.getack(Op{Space: s, Queue: true}); v != nil {
			return v
		}
		// every tracked packet is still recognised as duplicate
		if !m.sp[s].dropped {
			for pn := range m.sp[s].tracked {
				if !m.h.IsPotentiallyDuplicate(protocol.PacketNumber(pn), levels[s]) {
					return vf.Bad("C07/duplicate/not-recognised", "space %d: pn %d tracked but not recognised as duplicate at end", s, pn)
				}
			}
		}
	}
	for _, c := range []struct {
		n string
		b bool
	}{{"gap", m.hadGap}, {"dup", m.hadDup}, {"fill", m.hadFill}, {"overcap", m.overCap}, {"ignore", m.hadIgnore}} {
		if c.b {
			u.Class(c.n)
		}
	}
	if m.hadFill || m.hadDup || m.overCap {
		u.NonTrivial(m.sigv)
	}
	return nil
}

func TestRPHModel(t *testing.T) {
	vf.RunMachine(t, "rph-model", 120, func(t *rapid.T) Params {
		return Params{Universe: rapid.SampledFrom([]int64{8, 40, 300, 1 << 20}).Draw(t, "universe")}
	}, newMachine)
}

// TestRPHExhaustive enumerates every arrival sequence of length <= L over the packet-number
// universe {0..U-1} x ack-eliciting flag, in two retrieval modes (ACK requested after every
// arrival / only at the end), 1-RTT and Initial spaces, with 1 ms between arrivals.
func TestRPHExhaustive(t *testing.T) {
	u := vf.U("rph-exhaustive")
	if vf.ReplayMode() {
		raw, ok := vf.ReplayCase(t, "rph-exhaustive")
		if !ok {
			t.Skip()
		}
		_ = raw
		t.Skip("exhaustive cases replay through rph-model format")
	}
	U, L := 5, 5
	if vf.Thorough() {
		U, L = 6, 6
	}
	si, sk := vf.Shard()
	alphabet := U * 2
	total := 1
	for i := 0; i < L; i++ {
		total *= alphabet
	}
	idx := 0
	for _, space := range []int{2, 0} {
		for mode := 0; mode < 2; mode++ {
			for length := 1; length <= L; length++ {
				n := 1
				for i := 0; i < length; i++ {
					n *= alphabet
				}
				for code := 0; code < n; code++ {
					idx++
					if idx%sk != si {
						continue
					}
					ops := make([]Op, 0, length)
					c := code
					distinct := map[int]bool{}
					nt := false
					maxpn := -1
					for i := 0; i < length; i++ {
						sym := c % alphabet
						c /= alphabet
						pn := sym / 2
						if distinct[pn] || pn < maxpn {
							nt = true
						}
						distinct[pn] = true
						if pn > maxpn {
							maxpn = pn
						}
						ops = append(ops, Op{Kind: "arrive", Space: space, PN: int64(pn), AE: sym%2 == 1, DtUs: 1000, Now: mode == 0})
					}
					u.Case()
					cs := vf.MachineCase[Params, Op]{Params: Params{Universe: int64(U)}, Ops: ops}
					v := vf.Guard("C07/rph-exhaustive", func() *vf.Verdict {
						m := newMachine(cs.Params)
						for _, op := range ops {
							if v := m.Apply(op); v != nil {
								return v
							}
						}
						return m.(*machine).Finish(vf.Scratch())
					})
					if v != nil {
						// failures are reported in the rph-model unit's format so that they replay
						if vf.U("rph-model").Report(v, cs) {
							t.Fatalf("VIOLATION %s: %s (case %+v)", v.Sig, v.Detail, cs)
						}
					}
					if nt {
						u.NonTrivial(space, mode, length, code)
						if u.WantSample() && code%977 == 0 {
							u.Sample(cs)
						}
					}
				}
			}
		}
	}
	u.Extra("exhaustive", fmt.Sprintf("all arrival sequences of length<=%d over pn universe 0..%d x ack-eliciting flag x {ack after each arrival, ack at end} x {1-RTT, Initial}", L, U-1))
	_ = total
}
