package c07

import (
	"testing"

	"github.com/refraction-networking/uquic/verif/vf"
	"github.com/refraction-networking/uquic/verif/xfer"
)

// TestWireAcks: C07(b) - on complete simulated connections under network faults, every packet number an
// endpoint acknowledges belongs to a packet the router had delivered to it in that number space, and ACK
// ranges on the wire are descending and disjoint (read by the independent observer).
func TestWireAcks(t *testing.T) {
	vf.ReplayRepeat = 40
	xfer.GenUnit = "wire-acks"
	vf.RunRapid(t, "wire-acks", xfer.GenCase, func(c xfer.Case, u *vf.Unit) *vf.Verdict {
		return xfer.CheckCase(t, c, u, xfer.Options{WirePrefixes: []string{"C07/"}})
	})
}
