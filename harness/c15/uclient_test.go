package c15

// Unit "uclient-stream-limits": the stream limits a SPEC-DRIVEN client enforces are exactly the ones it put
// on the wire.
//
// The other units of this package drive the streams map with the limit it was constructed with. A
// spec-driven client (quic.UTransport with a QUICSpec) constructs it from a Config that
// newUClientConnection / applyAdvertisedTransportParameters derive from the spec's transport parameter
// list, while the ClientHello carries the list itself: "the advertised MAX_STREAMS" of the property is what
// the ClientHello says. This unit builds that connection with the production constructor (hook
// quic.VerifNewUClientConn through package uclient, run loop not started), reads initial_max_streams_bidi /
// _uni from the ClientHello bytes with independent readers (absent = 0, RFC 9000 18.2), and lets a scripted
// server open streams with every frame kind that can open one, in order and with skipped ids, up to, at and
// beyond that limit, through Conn.handleFrames.
//
// Oracle (property C15, RFC 9000 4.6 / 19.11): a frame for stream number n <= advertised limit is accepted
// and every stream up to n is offered to AcceptStream / AcceptUniStream exactly once in id order; the first
// frame for a stream number beyond the advertised limit - including a limit of 0 - is answered with
// STREAM_LIMIT_ERROR; after the application accepted and finished k streams the client has issued exactly
// the MAX_STREAMS values advertised+1 .. advertised+k, and the new credit is usable up to advertised+k and
// not beyond.

import (
	"fmt"
	"io"
	"sort"
	"testing"

	"pgregory.net/rapid"

	quic "github.com/refraction-networking/uquic"
	"github.com/refraction-networking/uquic/internal/protocol"
	"github.com/refraction-networking/uquic/internal/wire"
	"github.com/refraction-networking/uquic/verif/refwire"
	"github.com/refraction-networking/uquic/verif/specgen"
	"github.com/refraction-networking/uquic/verif/uclient"
	"github.com/refraction-networking/uquic/verif/vf"
)

// UOp is one packet of the scripted server.
type UOp struct {
	Uni  bool   `json:"uni,omitempty"`
	F    string `json:"f"`              // stream | fin | reset | sdb | msd | stop | blocked
	At   string `json:"at"`             // next | skip | nextin | skipin | limit | beyond | old   (ignored for blocked)
	D    uint64 `json:"d,omitempty"`    // skip: ids skipped; limit: distance below the limit; beyond: distance above; old: selector
	Data int    `json:"data,omitempty"` // stream / fin: payload bytes wanted (cut down to the advertised flow-control credit)
	Pre  int    `json:"pre,omitempty"`  // 1: a PING precedes the frame in the packet, 2: PADDING
}

// UFin is one step of the finishing phase: the application finishes stream number 1+Sel%opened of a type.
type UFin struct {
	Uni      bool   `json:"uni,omitempty"`
	Sel      uint64 `json:"sel"`
	PeerFin  bool   `json:"peer_fin,omitempty"` // the peer ends an unfinished stream with FIN (else RESET_STREAM)
	Read     bool   `json:"read,omitempty"`     // receive side: read to the end (else CancelRead)
	CloseSnd bool   `json:"close,omitempty"`    // bidi send side: Close (else CancelWrite)
}

type UCase struct {
	Spec specgen.Desc `json:"spec"`
	Cfg  uclient.Cfg  `json:"cfg"`
	Ops  []UOp        `json:"ops"`
	Fin  []UFin       `json:"fin,omitempty"`
}

const uMaxImplicit = 1100 // a single frame may implicitly open at most this many streams (harness bound)

type uStream struct {
	bytes   uint64 // highest offset sent
	final   bool
	stopped bool // the peer sent STOP_SENDING
}

type uType struct {
	uni     bool
	limit   uint64 // advertised on the wire
	opened  uint64
	streams map[uint64]*uStream // by stream number
}

func (ty *uType) name() string {
	if ty.uni {
		return "uni"
	}
	return "bidi"
}

type uRun struct {
	c        *uclient.Client
	u        *vf.Unit
	ty       [2]*uType // 0 bidi, 1 uni
	connSent uint64    // stream bytes sent on the connection
	closed   bool
	classes  map[string]bool
	cfg      uclient.Cfg
}

func (r *uRun) class(l string) { r.classes[l] = true }

func (r *uRun) typ(uni bool) *uType {
	if uni {
		return r.ty[1]
	}
	return r.ty[0]
}

// credit is how many more bytes the advertised windows allow on this stream.
func (r *uRun) credit(ty *uType, st *uStream) uint64 {
	win := r.c.Adv.StreamDataBidiRemote() // a server-initiated bidi stream is "remote" for the client
	if ty.uni {
		win = r.c.Adv.StreamDataUni()
	}
	var s uint64
	if win > st.bytes {
		s = win - st.bytes
	}
	var cn uint64
	if md := r.c.Adv.MaxData(); md > r.connSent {
		cn = md - r.connSent
	}
	return min(s, cn)
}

func pre(op UOp, f refwire.Frame) []refwire.Frame {
	switch op.Pre {
	case 1:
		return []refwire.Frame{uclient.Ping(), f}
	case 2:
		return []refwire.Frame{uclient.Padding(3), f}
	}
	return []refwire.Frame{f}
}

// resolve returns the stream number an op addresses in the current state.
func (ty *uType) resolve(op UOp) (n uint64, ok bool) {
	switch op.At {
	case "next":
		return ty.opened + 1, true
	case "skip":
		return ty.opened + 1 + 1 + op.D%3, true
	case "nextin": // the next stream, if the peer still has credit for it
		if ty.opened+1 > ty.limit {
			return 0, false
		}
		return ty.opened + 1, true
	case "skipin": // skip ids, but stay within the credit
		n := min(ty.opened+1+1+op.D%3, ty.limit)
		if n <= ty.opened {
			return 0, false
		}
		return n, true
	case "limit":
		d := op.D % 3
		if ty.limit < 1+d {
			return 0, false
		}
		return ty.limit - d, true
	case "beyond":
		return ty.limit + 1 + op.D%1000, true
	case "old":
		if ty.opened == 0 {
			return 0, false
		}
		return 1 + op.D%ty.opened, true
	}
	return 0, false
}

// frameFor builds the frame of kind op.F for stream number n and updates the peer's own bookkeeping.
func (r *uRun) frameFor(ty *uType, n uint64, op UOp) (refwire.Frame, string) {
	id := uclient.ServerStreamID(ty.uni, n)
	st := ty.streams[n]
	if st == nil {
		st = &uStream{}
	}
	kind := op.F
	if ty.uni && (kind == "msd" || kind == "stop") {
		kind = "sdb" // a server-initiated unidirectional stream has no send side on the client
	}
	if st.final && (kind == "stream" || kind == "fin" || kind == "reset") {
		kind = "sdb" // the stream has its final size: nothing more to say on it
	}
	var f refwire.Frame
	switch kind {
	case "stream", "fin":
		l := min(uint64(op.Data), r.credit(ty, st))
		data := make([]byte, l)
		for i := range data {
			data[i] = byte('a' + (n+uint64(i))%26)
		}
		f = uclient.Stream(id, st.bytes, data, kind == "fin")
		st.bytes += l
		r.connSent += l
		if kind == "fin" {
			st.final = true
		}
	case "reset":
		f = uclient.ResetStream(id, 0x17, st.bytes)
		st.final = true
	case "sdb":
		f = uclient.StreamDataBlocked(id, st.bytes)
	case "msd":
		f = uclient.MaxStreamData(id, 1<<20+n)
	case "stop":
		f = uclient.StopSending(id, 0x21)
		st.stopped = true
	default:
		return refwire.Frame{}, ""
	}
	if n <= ty.limit { // only then does the stream come into being
		ty.streams[n] = st
	}
	return f, kind
}

func limitClassU(l uint64) string {
	switch {
	case l == 0:
		return "0"
	case l <= 4:
		return "small"
	case l <= 20:
		return "medium"
	default:
		return "large"
	}
}

// apply executes one op. It returns a verdict, and done = true when the connection was (rightly) closed.
func (r *uRun) apply(op UOp) (v *vf.Verdict, done bool) {
	ty := r.typ(op.Uni)
	if op.F == "blocked" {
		// STREAMS_BLOCKED names the limit the peer knows: never an error, opens nothing (RFC 9000 19.14)
		if err := r.c.Feed(pre(op, uclient.StreamsBlocked(!ty.uni, ty.limit))...); err != nil {
			return vf.Bad("C15/uclient/unexpected-error", "STREAMS_BLOCKED(%s, %d) was answered with %v", ty.name(), ty.limit, err), false
		}
		r.class("frame:streams-blocked")
		return nil, false
	}
	n, ok := ty.resolve(op)
	if !ok {
		r.class("op-skipped:no-such-number")
		return nil, false
	}
	if n > refwire.MaxStreams {
		r.class("op-skipped:no-such-number") // stream ids end at 2^62-1
		return nil, false
	}
	if n > ty.opened && n <= ty.limit && n-ty.opened > uMaxImplicit {
		r.class("op-skipped:too-many-implicit")
		return nil, false
	}
	f, kind := r.frameFor(ty, n, op)
	if kind == "" {
		return nil, false
	}
	err := r.c.Feed(pre(op, f)...)
	ei := uclient.Classify(err)
	what := fmt.Sprintf("%s frame for server-initiated %s stream number %d (id %d); advertised initial_max_streams_%s = %d, %d opened so far",
		kind, ty.name(), n, f.StreamID, ty.name(), ty.limit, ty.opened)
	if n > ty.limit {
		// beyond the advertised limit
		if err == nil {
			return vf.Bad("C15/uclient/limit-not-enforced", "%s was accepted: no STREAM_LIMIT_ERROR (user Config: %+v)", what, r.cfgNote()), false
		}
		if !ei.Transport || ei.Code != uclient.CodeStreamLimitError || ei.Remote {
			return vf.Bad("C15/uclient/wrong-error", "%s: want STREAM_LIMIT_ERROR (local), got %v", what, err), false
		}
		r.class("beyond-limit")
		r.class("beyond:" + kind)
		r.class("beyond:" + op.At)
		if ty.limit == 0 {
			r.class("beyond-at-limit-0")
		}
		if n == ty.limit+1 {
			r.class("beyond-by-one")
		}
		if ty.opened == ty.limit && ty.limit > 0 {
			r.class("beyond-after-limit-reached")
		}
		r.c.Close(err)
		r.closed = true
		return nil, true
	}
	if err != nil {
		if ei.Transport && ei.Code == uclient.CodeStreamLimitError {
			return vf.Bad("C15/uclient/spurious-limit-error", "%s is within the advertised limit but got %v (user Config: %s)", what, err, r.cfgNote()), false
		}
		return vf.Bad("C15/uclient/unexpected-error", "%s is within the advertised limit and consistent with the advertised flow-control windows but got %v", what, err), false
	}
	if n > ty.opened {
		r.class("open:" + kind)
		if n > ty.opened+1 {
			r.class("skipped-ids")
		}
		if n == ty.limit {
			r.class("opened-at-limit")
			r.class("opened-at-limit:" + limitClassU(ty.limit))
		}
		for k := ty.opened + 1; k < n; k++ {
			ty.streams[k] = &uStream{}
		}
		ty.opened = n
	} else {
		r.class("frame-for-open-stream")
	}
	return nil, false
}

func (r *uRun) cfgNote() string {
	return fmt.Sprintf("%+v", r.cfg)
}

func (r *uRun) checkAccept() ([]*quic.Stream, []*quic.ReceiveStream, *vf.Verdict) {
	bs := r.c.AcceptBidi()
	us := r.c.AcceptUni()
	if uint64(len(bs)) != r.ty[0].opened {
		return nil, nil, vf.Bad("C15/uclient/accept-mismatch", "the peer opened %d bidirectional streams within the advertised limit %d, AcceptStream offered %d", r.ty[0].opened, r.ty[0].limit, len(bs))
	}
	if uint64(len(us)) != r.ty[1].opened {
		return nil, nil, vf.Bad("C15/uclient/accept-mismatch", "the peer opened %d unidirectional streams within the advertised limit %d, AcceptUniStream offered %d", r.ty[1].opened, r.ty[1].limit, len(us))
	}
	for i, s := range bs {
		if want := uclient.ServerBidiID(uint64(i + 1)); uint64(s.StreamID()) != want {
			return nil, nil, vf.Bad("C15/uclient/accept-mismatch", "AcceptStream call %d returned stream %d, want %d", i+1, s.StreamID(), want)
		}
	}
	for i, s := range us {
		if want := uclient.ServerUniID(uint64(i + 1)); uint64(s.StreamID()) != want {
			return nil, nil, vf.Bad("C15/uclient/accept-mismatch", "AcceptUniStream call %d returned stream %d, want %d", i+1, s.StreamID(), want)
		}
	}
	if len(bs)+len(us) > 0 {
		r.class("accepted-all")
	}
	return bs, us, nil
}

// finish lets the application finish the selected streams and checks the credit the client issues.
func (r *uRun) finish(fins []UFin, bs []*quic.Stream, us []*quic.ReceiveStream) *vf.Verdict {
	// nothing the client queued so far may be MAX_STREAMS: no stream has completed yet
	for _, f := range r.c.Flush() {
		if ms, ok := f.(*wire.MaxStreamsFrame); ok {
			return vf.Bad("C15/uclient/credit-base", "MAX_STREAMS(%v, %d) issued although no stream has completed (advertised %d / %d)", ms.Type, ms.MaxStreamNum, r.ty[0].limit, r.ty[1].limit)
		}
	}
	done := [2]map[uint64]bool{{}, {}}
	for _, fn := range fins {
		ty := r.typ(fn.Uni)
		ti := 0
		if fn.Uni {
			ti = 1
		}
		if ty.opened == 0 {
			continue
		}
		n := 1 + fn.Sel%ty.opened
		if done[ti][n] {
			continue
		}
		done[ti][n] = true
		st := ty.streams[n]
		id := uclient.ServerStreamID(ty.uni, n)
		if !st.final {
			var f refwire.Frame
			if fn.PeerFin {
				f = uclient.Stream(id, st.bytes, nil, true)
			} else {
				f = uclient.ResetStream(id, 0x33, st.bytes)
			}
			st.final = true
			if err := r.c.Feed(f); err != nil {
				return vf.Bad("C15/uclient/unexpected-error", "%s ending open %s stream number %d at its current size %d was answered with %v", f.Name, ty.name(), n, st.bytes, err)
			}
		}
		var rd io.Reader
		var cancelRead func(quic.StreamErrorCode)
		if ty.uni {
			s := us[n-1]
			rd, cancelRead = s, s.CancelRead
		} else {
			s := bs[n-1]
			rd, cancelRead = s, s.CancelRead
			if fn.CloseSnd {
				s.Close()
			} else {
				s.CancelWrite(0x44)
			}
		}
		if fn.Read {
			io.Copy(io.Discard, rd) // the stream has its final size: returns at EOF / with the reset error
		} else {
			cancelRead(0x55)
		}
	}
	var got [2][]uint64
	for _, f := range r.c.Flush() {
		if ms, ok := f.(*wire.MaxStreamsFrame); ok {
			ti := 0
			if ms.Type == protocol.StreamTypeUni {
				ti = 1
			}
			got[ti] = append(got[ti], uint64(ms.MaxStreamNum))
		}
	}
	for ti, ty := range r.ty {
		k := uint64(len(done[ti]))
		var want []uint64
		for j := uint64(1); j <= k; j++ {
			if ty.limit+j <= refwire.MaxStreams {
				want = append(want, ty.limit+j)
			}
		}
		g := append([]uint64(nil), got[ti]...)
		sort.Slice(g, func(i, j int) bool { return g[i] < g[j] })
		same := len(g) == len(want)
		for i := 0; same && i < len(g); i++ {
			same = g[i] == want[i]
		}
		if !same {
			return vf.Bad("C15/uclient/credit-base", "%s streams: advertised initial limit %d, the application accepted and finished %d streams; MAX_STREAMS values issued %v, want %v (advertised + number of completed streams; user Config %s)",
				ty.name(), ty.limit, k, got[ti], want, r.cfgNote())
		}
		if k > 0 {
			r.class("credit-checked")
			r.class("credit-checked:" + ty.name())
			if uint64(len(want)) < k {
				r.class("credit-capped")
			}
		}
		ty.limit += uint64(len(want))
	}
	return nil
}

func cfgClass(v int64) string {
	switch {
	case v == 0:
		return "default"
	case v < 0:
		return "negative"
	case v <= 5:
		return "small"
	default:
		return "large"
	}
}

// effective is the limit the user's Config alone would give (config.go populateConfig / validateConfig).
func effective(v int64) uint64 {
	switch {
	case v == 0:
		return 100
	case v < 0:
		return 0
	case v > 1<<60:
		return 1 << 60
	}
	return uint64(v)
}

func rel(adv, cfg uint64) string {
	switch {
	case adv < cfg:
		return "adv<cfg"
	case adv > cfg:
		return "adv>cfg"
	}
	return "adv=cfg"
}

func specClasses(r *uRun, c UCase) {
	d := c.Spec
	if len(d.TPs) == 0 {
		r.class("spec:builtin-list")
	} else {
		r.class("spec:generated-list")
	}
	for ti, id := range []uint64{refwire.TPInitialMaxStreamsBidi, refwire.TPInitialMaxStreamsUni} {
		name := []string{"bidi", "uni"}[ti]
		suppressed := false
		for _, s := range d.Suppress {
			if s == id {
				suppressed = true
			}
		}
		listed, raw := len(d.TPs) == 0, false // a built-in list declares both limits
		for _, tp := range d.TPs {
			if (tp.K == "streams_bidi" && ti == 0) || (tp.K == "streams_uni" && ti == 1) {
				listed = true
			}
			if tp.K == "fake" && tp.ID == id {
				listed, raw = true, true
			}
		}
		adv := r.ty[ti].limit
		switch {
		case listed && suppressed:
			r.class("limit:suppressed")
			r.class("limit:suppressed:" + name)
		case !listed:
			r.class("limit:absent")
			r.class("limit:absent:" + name)
		case adv == 0:
			r.class("limit:zero")
			r.class("limit:zero:" + name)
		default:
			r.class("limit:" + limitClassU(adv))
		}
		if raw && !suppressed {
			r.class("form:raw")
		}
		cv := c.Cfg.MaxIncomingStreams
		if ti == 1 {
			cv = c.Cfg.MaxIncomingUniStreams
		}
		if c.Cfg.Nil {
			cv = 0
		}
		r.class("cfg:" + cfgClass(cv))
		r.class(rel(adv, effective(cv)))
		if adv == 0 && effective(cv) > 0 {
			r.class("adv-0-cfg-positive")
		}
	}
	if c.Cfg.Nil {
		r.class("cfg:nil")
	}
}

func checkU(c UCase, u *vf.Unit) *vf.Verdict {
	cl, err := uclient.New(c.Spec, c.Cfg)
	if err != nil {
		return vf.Bad("C15/uclient/setup", "cannot build the client connection: %v", err)
	}
	r := &uRun{c: cl, u: u, classes: map[string]bool{}, cfg: c.Cfg}
	r.ty[0] = &uType{limit: cl.Adv.MaxStreamsBidi(), streams: map[uint64]*uStream{}}
	r.ty[1] = &uType{uni: true, limit: cl.Adv.MaxStreamsUni(), streams: map[uint64]*uStream{}}
	adv0 := [2]uint64{r.ty[0].limit, r.ty[1].limit}
	defer func() {
		if !r.closed {
			cl.Close(nil)
		}
	}()
	if err := cl.Complete(nil); err != nil {
		return vf.Bad("C15/uclient/setup", "handshake completion failed: %v", err)
	}
	specClasses(r, c)

	rejected := false
	for _, op := range c.Ops {
		v, done := r.apply(op)
		if v != nil {
			return v
		}
		if done {
			rejected = true
			break
		}
	}
	credit := false
	if !rejected {
		bs, us, v := r.checkAccept()
		if v != nil {
			return v
		}
		if len(c.Fin) > 0 && len(bs)+len(us) > 0 {
			if v := r.finish(c.Fin, bs, us); v != nil {
				return v
			}
			credit = r.classes["credit-checked"]
			// the new credit is usable to the full and not beyond
			for _, ty := range r.ty {
				if ty.limit > ty.opened && ty.limit-ty.opened <= uMaxImplicit && r.classes["credit-checked:"+ty.name()] {
					if v, _ := r.apply(UOp{Uni: ty.uni, F: "stream", At: "limit", Data: 1}); v != nil {
						v.Detail = "[after MAX_STREAMS raised the limit to " + fmt.Sprint(ty.limit) + "] " + v.Detail
						return v
					}
					r.class("post-credit:at-new-limit")
				}
			}
			for _, ty := range r.ty {
				if r.classes["credit-checked:"+ty.name()] && !r.closed {
					v, done := r.apply(UOp{Uni: ty.uni, F: "reset", At: "beyond"})
					if v != nil {
						v.Detail = "[after MAX_STREAMS raised the limit to " + fmt.Sprint(ty.limit) + "] " + v.Detail
						return v
					}
					if done {
						r.class("post-credit:beyond-new-limit")
						rejected = true
					}
				}
			}
		}
	}
	for l := range r.classes {
		u.Class(l)
	}
	// non-trivial: the decisive moment was reached (a frame beyond the advertised limit was refused, or credit
	// was issued from the advertised base) on a connection whose user Config alone would give another limit
	differs := adv0[0] != effective(cfgInt(c.Cfg, false)) || adv0[1] != effective(cfgInt(c.Cfg, true))
	if (rejected || credit) && differs {
		u.NonTrivial("ucl", c.Spec.Base, fmt.Sprint(c.Spec.TPs), fmt.Sprint(c.Spec.Suppress), fmt.Sprintf("%+v", c.Cfg), fmt.Sprint(c.Ops), fmt.Sprint(c.Fin))
		if u.WantSample() {
			u.Sample(c)
		}
	}
	return nil
}

func cfgInt(c uclient.Cfg, uni bool) int64 {
	if c.Nil {
		return 0
	}
	if uni {
		return c.MaxIncomingUniStreams
	}
	return c.MaxIncomingStreams
}

// ---- generator ----

var uLimitIDs = map[uint64]bool{refwire.TPInitialMaxStreamsBidi: true, refwire.TPInitialMaxStreamsUni: true}

func uVarint(v uint64) []byte { return refwire.AppendVarint(nil, v) }

func genLimitValue(t *rapid.T, label string) uint64 {
	switch rapid.SampledFrom([]int{0, 0, 1, 1, 1, 2, 3, 3}).Draw(t, label+"-cls") {
	case 0:
		return 0
	case 1:
		return uint64(rapid.SampledFrom([]int{1, 2, 3, 4}).Draw(t, label+"-small"))
	case 2:
		return uint64(rapid.SampledFrom([]int{5, 8, 16, 20}).Draw(t, label+"-med"))
	}
	return rapid.SampledFrom([]uint64{99, 100, 101, 103, 300, 1000, 65535, 1 << 32, 1<<60 - 1, 1 << 60}).Draw(t, label+"-large")
}

func genUSpec(t *rapid.T) specgen.Desc {
	d := specgen.Desc{Base: rapid.SampledFrom(specgen.BaseNames()).Draw(t, "base")}
	if rapid.SampledFrom([]int{0, 1, 1, 1, 1}).Draw(t, "list") == 1 {
		// generated list: a GenTPs prefix without stream limits, then the two limits in drawn form
		var tps []specgen.TPDesc
		ownWindows := rapid.Bool().Draw(t, "own-windows")
		for _, tp := range specgen.GenTPs(t, 0, 5) {
			if tp.K == "streams_bidi" || tp.K == "streams_uni" || (tp.K == "fake" && uLimitIDs[tp.ID]) {
				continue
			}
			if ownWindows && (tp.K == "maxdata" || tp.K == "bidi_remote" || tp.K == "uni" || (tp.K == "fake" && (tp.ID == 4 || tp.ID == 6 || tp.ID == 7))) {
				continue
			}
			tps = append(tps, tp)
		}
		insert := func(tp specgen.TPDesc, label string) {
			pos := rapid.IntRange(0, len(tps)).Draw(t, label+"-pos")
			tps = append(tps[:pos:pos], append([]specgen.TPDesc{tp}, tps[pos:]...)...)
		}
		if ownWindows {
			for _, k := range []string{"maxdata", "bidi_remote", "uni"} {
				if rapid.SampledFrom([]int{0, 1, 1}).Draw(t, k+"-present") == 1 {
					insert(specgen.TPDesc{K: k, N: rapid.SampledFrom([]uint64{0, 1, 2, 3, 100, 65536}).Draw(t, k+"-v")}, k)
				}
			}
		}
		for i, k := range []string{"streams_bidi", "streams_uni"} {
			switch rapid.SampledFrom([]string{"absent", "typed", "typed", "typed", "raw"}).Draw(t, k+"-form") {
			case "typed":
				insert(specgen.TPDesc{K: k, N: genLimitValue(t, k)}, k)
			case "raw":
				insert(specgen.TPDesc{K: "fake", ID: uint64(refwire.TPInitialMaxStreamsBidi + i), V: uVarint(genLimitValue(t, k))}, k)
			}
		}
		d.TPs = tps
	}
	if rapid.SampledFrom([]int{0, 0, 1}).Draw(t, "suppress") == 1 {
		pool := []uint64{refwire.TPInitialMaxStreamsBidi, refwire.TPInitialMaxStreamsUni, refwire.TPInitialMaxStreamsBidi, refwire.TPInitialMaxStreamsUni,
			refwire.TPMaxDatagramFrameSize, refwire.TPInitialMaxData, refwire.TPInitialMaxStreamDataUni, 27, 0x4752}
		n := rapid.SampledFrom([]int{1, 1, 2, 3}).Draw(t, "nsupp")
		for i := 0; i < n; i++ {
			d.Suppress = append(d.Suppress, rapid.SampledFrom(pool).Draw(t, "supp"))
		}
	}
	if rapid.SampledFrom([]int{0, 0, 1}).Draw(t, "e-rand") == 1 {
		b := true
		d.Randomize = &b
	}
	if rapid.SampledFrom([]int{0, 0, 1}).Draw(t, "e-src") == 1 {
		n := rapid.SampledFrom([]int{0, 4, 8, 20}).Draw(t, "src")
		d.SrcCID = &n
	}
	return d
}

func genStreamsCfg(t *rapid.T, label string) int64 {
	switch rapid.SampledFrom([]int{0, 0, 1, 2, 2, 3, 3}).Draw(t, label+"-cls") {
	case 0:
		return 0
	case 1:
		return rapid.SampledFrom([]int64{-1, -1, -100, -1 << 62}).Draw(t, label+"-neg")
	case 2:
		return rapid.SampledFrom([]int64{1, 2, 3, 4, 5}).Draw(t, label+"-small")
	}
	return rapid.SampledFrom([]int64{16, 99, 100, 101, 103, 1000, 1 << 32, 1 << 60, 1 << 61}).Draw(t, label+"-large")
}

func genUCfg(t *rapid.T) uclient.Cfg {
	if rapid.SampledFrom([]int{0, 0, 0, 0, 0, 0, 0, 0, 0, 1}).Draw(t, "nil-config") == 1 {
		return uclient.Cfg{Nil: true}
	}
	c := uclient.Cfg{
		MaxIncomingStreams:    genStreamsCfg(t, "cfg-bidi"),
		MaxIncomingUniStreams: genStreamsCfg(t, "cfg-uni"),
		EnableDatagrams:       rapid.Bool().Draw(t, "cfg-dgram"),
		ResetPartial:          rapid.SampledFrom([]bool{false, false, true}).Draw(t, "cfg-rsa"),
		DisablePMTUD:          rapid.Bool().Draw(t, "cfg-pmtud"),
	}
	if rapid.SampledFrom([]int{0, 0, 1}).Draw(t, "cfg-win") == 1 {
		c.InitialStreamWin = rapid.SampledFrom([]uint64{1, 1000, 1 << 20}).Draw(t, "cfg-isw")
		c.InitialConnWin = rapid.SampledFrom([]uint64{1, 1500, 1 << 20}).Draw(t, "cfg-icw")
	}
	return c
}

func genUOps(t *rapid.T) []UOp {
	n := rapid.SampledFrom([]int{1, 2, 3, 4, 5, 6, 8, 10, 14, 20}).Draw(t, "nops")
	kinds := []string{"stream", "stream", "fin", "reset", "sdb", "msd", "stop", "blocked"}
	ats := []string{"next", "next", "next", "next", "skip", "limit", "limit", "beyond", "beyond", "old", "old"}
	if rapid.Bool().Draw(t, "conformant") {
		// a peer that stays within its credit: the script reaches the finishing phase
		ats = []string{"nextin", "nextin", "nextin", "nextin", "skipin", "limit", "limit", "old", "old"}
	}
	// most scripts favour one stream type so that its limit is actually reached
	bias := rapid.SampledFrom([]int{0, 1, 2}).Draw(t, "bias")
	ops := make([]UOp, 0, n)
	for i := 0; i < n; i++ {
		op := UOp{F: rapid.SampledFrom(kinds).Draw(t, "f"), At: rapid.SampledFrom(ats).Draw(t, "at")}
		switch bias {
		case 0:
			op.Uni = rapid.SampledFrom([]bool{false, false, false, true}).Draw(t, "uni")
		case 1:
			op.Uni = rapid.SampledFrom([]bool{true, true, true, false}).Draw(t, "uni")
		default:
			op.Uni = rapid.Bool().Draw(t, "uni")
		}
		switch op.At {
		case "skip", "skipin":
			op.D = uint64(rapid.SampledFrom([]int{0, 0, 1, 2}).Draw(t, "d"))
		case "limit":
			op.D = uint64(rapid.SampledFrom([]int{0, 0, 0, 1, 2}).Draw(t, "d"))
		case "beyond":
			op.D = uint64(rapid.SampledFrom([]int{0, 0, 0, 1, 4, 16, 999}).Draw(t, "d"))
		case "old":
			op.D = uint64(rapid.IntRange(0, 40).Draw(t, "d"))
		}
		if op.F == "stream" || op.F == "fin" {
			op.Data = rapid.SampledFrom([]int{0, 1, 1, 2, 5}).Draw(t, "data")
		}
		op.Pre = rapid.SampledFrom([]int{0, 0, 0, 1, 2}).Draw(t, "pre")
		ops = append(ops, op)
	}
	return ops
}

func genUFin(t *rapid.T) []UFin {
	n := rapid.SampledFrom([]int{0, 1, 1, 2, 3, 5, 8}).Draw(t, "nfin")
	var out []UFin
	for i := 0; i < n; i++ {
		out = append(out, UFin{
			Uni:      rapid.Bool().Draw(t, "fin-uni"),
			Sel:      uint64(rapid.IntRange(0, 30).Draw(t, "fin-sel")),
			PeerFin:  rapid.Bool().Draw(t, "fin-peerfin"),
			Read:     rapid.Bool().Draw(t, "fin-read"),
			CloseSnd: rapid.Bool().Draw(t, "fin-close"),
		})
	}
	return out
}

func genUCase(t *rapid.T) UCase {
	return UCase{Spec: genUSpec(t), Cfg: genUCfg(t), Ops: genUOps(t), Fin: genUFin(t)}
}

func TestUClientStreamLimits(t *testing.T) {
	vf.RunRapid(t, "uclient-stream-limits", genUCase, checkU)
}
