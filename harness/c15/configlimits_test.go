package c15

// Unit "config-limits": what Config.MaxIncomingStreams / MaxIncomingUniStreams mean reaches the wire and is enforced,
// for every combination of the two (documented in interface.go: 0 = default 100, negative = the peer may not open any
// stream of that type, positive = that many). Each case is a real Listen / Dial pair over the simulated network; the
// advertised initial_max_streams_bidi / _uni are read off the wire by the independent observer, and the peer then opens
// streams of both types up to and beyond what was advertised.

import (
	"context"
	"fmt"
	"testing"
	"time"

	quic "github.com/refraction-networking/uquic"
	"github.com/refraction-networking/uquic/verif/sim"
	"github.com/refraction-networking/uquic/verif/vf"
	"pgregory.net/rapid"
)

type CLCase struct {
	// [client bidi, client uni, server bidi, server uni] as given in the Config
	Lim [4]int `json:"lim"`
	V2  bool   `json:"v2,omitempty"`
}

var clT *testing.T

func genCLCase(t *rapid.T) CLCase {
	var c CLCase
	for i := range c.Lim {
		c.Lim[i] = rapid.SampledFrom([]int{0, 0, -1, -1, -5, 1, 2, 5, 100, 1000}).Draw(t, fmt.Sprintf("lim%d", i))
	}
	c.V2 = rapid.Bool().Draw(t, "v2")
	return c
}

func wantAdvertised(cfg int) uint64 {
	switch {
	case cfg < 0:
		return 0
	case cfg == 0:
		return 100
	}
	return uint64(cfg)
}

func checkCLCase(c CLCase, u *vf.Unit) *vf.Verdict {
	u.Journal(c)
	var v *vf.Verdict
	sim.Bubble(clT, 40*time.Second, func() { v = runCLCase(c, u) }, func(rep sim.LeakReport) {
		if v == nil {
			v = vf.Bad("C15/config/leak", "%d goroutines alive after both transports were closed:\n%s", rep.Count, rep.Dump)
		}
	})
	return v
}

func runCLCase(c CLCase, u *vf.Unit) *vf.Verdict {
	w := sim.NewWorld(4*time.Millisecond, nil, nil, nil)
	defer w.Close()
	w.Observe()
	conf := func(bidi, uni int) *quic.Config {
		q := &quic.Config{DisablePathMTUDiscovery: true, HandshakeIdleTimeout: 4 * time.Second, MaxIdleTimeout: 8 * time.Second,
			MaxIncomingStreams: int64(bidi), MaxIncomingUniStreams: int64(uni)}
		if c.V2 {
			q.Versions = []quic.Version{quic.Version2}
		}
		return q
	}
	st := &quic.Transport{Conn: w.ServerConn}
	ct := &quic.Transport{Conn: w.ClientConn}
	defer st.Close()
	defer ct.Close()
	ln, err := st.Listen(sim.ServerTLS(false, w.ServerKeys), conf(c.Lim[2], c.Lim[3]))
	if err != nil {
		return vf.Bad("C15/config/listen-rejected", "Listen with MaxIncomingStreams %d / MaxIncomingUniStreams %d: %v", c.Lim[2], c.Lim[3], err)
	}
	defer ln.Close()
	ctx, cancel := sim.Ctx(20 * time.Second)
	defer cancel()
	type acc struct {
		c   *quic.Conn
		err error
	}
	accCh := make(chan acc, 1)
	go func() {
		sc, e := ln.Accept(ctx)
		accCh <- acc{sc, e}
	}()
	cc, err := ct.Dial(ctx, sim.ServerAddr, sim.ClientTLS(w.ClientKeys), conf(c.Lim[0], c.Lim[1]))
	if err != nil {
		return vf.Bad("C15/config/dial-failed", "Dial with MaxIncomingStreams %d / MaxIncomingUniStreams %d (server %d / %d) failed on a fault-free network: %v", c.Lim[0], c.Lim[1], c.Lim[2], c.Lim[3], err)
	}
	a := <-accCh
	if a.err != nil {
		cc.CloseWithError(0, "")
		return vf.Bad("C15/config/accept-failed", "Accept failed: %v", a.err)
	}
	sc := a.c
	defer func() {
		cc.CloseWithError(0, "")
		sc.CloseWithError(0, "")
	}()
	// what went on the wire
	for side, client := range []bool{true, false} {
		tps, ok := w.TransportParams(client)
		if !ok {
			return vf.Bad("C15/config/harness-no-transport-parameters", "observer found no transport parameters (client=%v)", client)
		}
		for ty, id := range []uint64{0x08, 0x09} {
			got, present := sim.TPValue(tps, id)
			if !present {
				got = 0
			}
			cfg := c.Lim[2*side+ty]
			if want := wantAdvertised(cfg); got != want {
				return vf.Bad("C15/config/advertised-limit-differs", "%s Config.%s = %d means %d streams, but transport parameter %#x on the wire says %d (present=%v)",
					[]string{"client", "server"}[side], []string{"MaxIncomingStreams", "MaxIncomingUniStreams"}[ty], cfg, want, id, got, present)
			}
		}
	}
	// what is enforced: each side opens streams of both types towards the other, as many as advertised, then one more
	for side, pair := range [][2]*quic.Conn{{sc, cc}, {cc, sc}} { // opener, receiver (receiver's Config applies)
		opener := pair[0]
		base := 0
		if side == 1 {
			base = 2
		}
		for ty := 0; ty < 2; ty++ {
			limit := int(wantAdvertised(c.Lim[base+ty]))
			n := min(limit, 12)
			for i := 0; i < n; i++ {
				var e error
				if ty == 0 {
					_, e = opener.OpenStream()
				} else {
					_, e = opener.OpenUniStream()
				}
				if e != nil {
					return vf.Bad("C15/config/credit-not-usable", "the peer advertised %d streams (type %d) but opening stream #%d failed: %v", limit, ty, i+1, e)
				}
			}
			if limit <= 12 {
				var e error
				if ty == 0 {
					_, e = opener.OpenStream()
				} else {
					_, e = opener.OpenUniStream()
				}
				if e == nil {
					return vf.Bad("C15/config/opened-beyond-advertised", "the peer advertised %d streams (type %d), yet stream #%d could be opened", limit, ty, limit+1)
				}
				u.Class("limit-reached")
			}
		}
	}
	neg, mixed := 0, false
	for _, l := range c.Lim {
		if l < 0 {
			neg++
		}
	}
	for s := 0; s < 2; s++ {
		if (c.Lim[2*s] < 0) != (c.Lim[2*s+1] < 0) {
			mixed = true
		}
	}
	if neg > 0 {
		u.Class("negative-limit")
	}
	if mixed {
		u.Class("one-stream-type-disabled-only")
	}
	u.NonTrivial("cl", c.Lim, c.V2)
	_ = context.Background
	return nil
}

func TestConfigLimits(t *testing.T) {
	clT = t
	vf.RunRapid(t, "config-limits", genCLCase, checkCLCase)
}
