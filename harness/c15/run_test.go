package c15

// Runtime: executes one history against quic.VerifStreamsMap inside a synctest bubble, in lock
// step with the reference model, and decides the verdict.

import (
	"context"
	"errors"
	"fmt"
	"sort"
	"sync"
	"sync/atomic"
	"testing"
	"testing/synctest"
	"time"

	quic "github.com/refraction-networking/uquic"
	"github.com/refraction-networking/uquic/internal/flowcontrol"
	"github.com/refraction-networking/uquic/internal/monotime"
	"github.com/refraction-networking/uquic/internal/protocol"
	"github.com/refraction-networking/uquic/internal/qerr"
	"github.com/refraction-networking/uquic/internal/utils"
	"github.com/refraction-networking/uquic/internal/wire"
	"github.com/refraction-networking/uquic/verif/vf"
)

var errClosed = errors.New("c15: connection closed by the harness")

type waiterRT struct {
	kind     byte
	t        int
	cancel   context.CancelFunc
	done     bool
	id       int64
	err      error
	reported bool
}

// recFC wraps the real stream flow controller and records which stream a peer frame reached.
type recFC struct {
	flowcontrol.StreamFlowController
	id int64
	r  *rt
}

func (f *recFC) UpdateHighestReceived(off protocol.ByteCount, final bool, now monotime.Time) error {
	f.r.event(f.id)
	return f.StreamFlowController.UpdateHighestReceived(off, final, now)
}

func (f *recFC) UpdateSendWindow(l protocol.ByteCount) bool {
	f.r.event(f.id)
	return f.StreamFlowController.UpdateSendWindow(l)
}

type rt struct {
	p  Params
	sm *quic.VerifStreamsMap

	mu          sync.Mutex
	frames      []fexp
	created     []int64
	events      []int64
	completions []int64
	panics      []string
	waiters     []*waiterRT

	closed bool

	// independent bookkeeping for the direct property checks (per generation of the maps)
	peerMax     [2]int64
	lastOut     [2]int64 // last id handed out by Open*, -1 none
	lastAcc     [2]int64
	lastCredit  [2]int64
	blockedSeen [2]map[int64]bool
	createdIn   [2]int64
	stopped     map[int64]bool
}

func (r *rt) event(id int64) {
	r.mu.Lock()
	r.events = append(r.events, id)
	r.mu.Unlock()
}

func newRT(p Params) *rt {
	r := &rt{p: p}
	r.resetBook()
	rtt := utils.NewRTTStats()
	cfc := flowcontrol.NewConnectionFlowController(1<<30, 1<<30, func(protocol.ByteCount) bool { return true }, rtt, utils.DefaultLogger)
	sender := &quic.VerifStreamSender{
		OnHasStreamControlFrame: func(id protocol.StreamID, _ quic.VerifControlFrameGetter) { r.event(int64(id)) },
		OnStreamCompleted: func(id protocol.StreamID) {
			r.mu.Lock()
			r.completions = append(r.completions, int64(id))
			r.mu.Unlock()
		},
	}
	r.sm = quic.VerifNewStreamsMap(
		context.Background(),
		sender,
		func(f wire.Frame) {
			r.mu.Lock()
			defer r.mu.Unlock()
			switch x := f.(type) {
			case *wire.MaxStreamsFrame:
				r.frames = append(r.frames, fexp{'M', stype(x.Type), int64(x.MaxStreamNum)})
			case *wire.StreamsBlockedFrame:
				r.frames = append(r.frames, fexp{'B', stype(x.Type), int64(x.StreamLimit)})
			default:
				r.frames = append(r.frames, fexp{'?', 0, 0})
			}
		},
		func(id protocol.StreamID) flowcontrol.StreamFlowController {
			r.mu.Lock()
			r.created = append(r.created, int64(id))
			r.mu.Unlock()
			return &recFC{
				StreamFlowController: flowcontrol.NewStreamFlowController(id, cfc, 1<<20, 1<<20, 1<<20, rtt, utils.DefaultLogger),
				id:                   int64(id), r: r,
			}
		},
		uint64(p.LBidi), uint64(p.LUni), protocol.Perspective(p.Persp),
	)
	r.tp(p.TPBidi, p.TPUni)
	r.mu.Lock()
	r.events = nil
	r.mu.Unlock()
	return r
}

func (r *rt) resetBook() {
	r.peerMax = [2]int64{}
	r.lastOut = [2]int64{-1, -1}
	r.lastAcc = [2]int64{-1, -1}
	r.lastCredit = [2]int64{r.p.LBidi, r.p.LUni}
	r.blockedSeen = [2]map[int64]bool{{}, {}}
	r.createdIn = [2]int64{}
	r.stopped = map[int64]bool{}
}

func stype(t protocol.StreamType) int {
	if t == protocol.StreamTypeUni {
		return 1
	}
	return 0
}

func ptype(t int) protocol.StreamType {
	if t == 1 {
		return protocol.StreamTypeUni
	}
	return protocol.StreamTypeBidi
}

func (r *rt) tp(b, u int64) {
	r.sm.HandleTransportParameters(&wire.TransportParameters{
		MaxBidiStreamNum:               protocol.StreamNum(b),
		MaxUniStreamNum:                protocol.StreamNum(u),
		InitialMaxStreamDataBidiRemote: 1 << 16,
		InitialMaxStreamDataBidiLocal:  1 << 16,
		InitialMaxStreamDataUni:        1 << 16,
		InitialMaxData:                 1 << 20,
	})
	r.peerMax[0] = max(r.peerMax[0], b)
	r.peerMax[1] = max(r.peerMax[1], u)
}

func errKind(err error) string {
	if err == nil {
		return ""
	}
	var te *qerr.TransportError
	var slp *quic.StreamLimitReachedError
	var slv quic.StreamLimitReachedError
	switch {
	case errors.Is(err, errClosed):
		return "closed"
	case errors.Is(err, quic.Err0RTTRejected):
		return "0rtt"
	case errors.Is(err, context.Canceled):
		return "canceled"
	case errors.As(err, &slp), errors.As(err, &slv):
		return "limit-reached"
	case errors.As(err, &te):
		switch te.ErrorCode {
		case qerr.StreamLimitError:
			return "stream-limit"
		case qerr.StreamStateError:
			return "stream-state"
		}
		return fmt.Sprintf("transport-0x%x", uint64(te.ErrorCode))
	}
	return "other"
}

type obs struct {
	err     error
	kind    string
	id      int64
	blocked bool
	frames  []fexp
	woke    map[int]wexp
	wokeErr map[int]error
	created []int64
	events  []int64
	delErr  error
}

// spawn starts a blocking call in a goroutine of the bubble.
func (r *rt) spawn(kind byte, t int, pre bool) *waiterRT {
	ctx, cancel := context.WithCancel(context.Background())
	if pre {
		cancel()
	}
	w := &waiterRT{kind: kind, t: t, cancel: cancel, id: -1}
	r.mu.Lock()
	r.waiters = append(r.waiters, w)
	r.mu.Unlock()
	go func() {
		id := int64(-1)
		var err error
		defer func() {
			if p := recover(); p != nil {
				r.mu.Lock()
				r.panics = append(r.panics, fmt.Sprint(p))
				r.mu.Unlock()
				err = fmt.Errorf("panic: %v", p)
			}
			r.mu.Lock()
			w.done, w.id, w.err = true, id, err
			r.mu.Unlock()
		}()
		switch {
		case kind == 'o' && t == 0:
			s, e := r.sm.OpenStreamSync(ctx)
			if err = e; e == nil {
				id = int64(s.StreamID())
			}
		case kind == 'o':
			s, e := r.sm.OpenUniStreamSync(ctx)
			if err = e; e == nil {
				id = int64(s.StreamID())
			}
		case t == 0:
			s, e := r.sm.AcceptStream(ctx)
			if err = e; e == nil {
				id = int64(s.StreamID())
			}
		default:
			s, e := r.sm.AcceptUniStream(ctx)
			if err = e; e == nil {
				id = int64(s.StreamID())
			}
		}
	}()
	return w
}

func (r *rt) peerFrame(f string, id int64) error {
	sid := protocol.StreamID(id)
	switch f {
	case "stream":
		return r.sm.HandleStreamFrame(&wire.StreamFrame{StreamID: sid, Data: []byte{'x'}, DataLenPresent: true}, monotime.Now())
	case "reset":
		return r.sm.HandleResetStreamFrame(&wire.ResetStreamFrame{StreamID: sid, ErrorCode: 7, FinalSize: 1}, monotime.Now())
	case "stop":
		return r.sm.HandleStopSendingFrame(&wire.StopSendingFrame{StreamID: sid, ErrorCode: 9})
	case "maxdata":
		return r.sm.HandleMaxStreamDataFrame(&wire.MaxStreamDataFrame{StreamID: sid, MaximumStreamData: 1 << 17})
	case "blocked":
		return r.sm.HandleStreamDataBlockedFrame(&wire.StreamDataBlockedFrame{StreamID: sid, MaximumStreamData: 1 << 20})
	}
	panic("unknown frame kind " + f)
}

// exec performs a (valid) operation and waits for the bubble to become quiescent.
func (r *rt) exec(op Op) obs {
	o := obs{id: -1}
	var self *waiterRT
	switch op.K {
	case "open":
		if op.T == 0 {
			s, err := r.sm.OpenStream()
			if o.err = err; err == nil {
				o.id = int64(s.StreamID())
			}
		} else {
			s, err := r.sm.OpenUniStream()
			if o.err = err; err == nil {
				o.id = int64(s.StreamID())
			}
		}
	case "opensync":
		self = r.spawn('o', op.T, op.Pre)
	case "accept":
		self = r.spawn('a', op.T, op.Pre)
	case "cancel":
		r.waiters[op.W].cancel()
	case "frame":
		o.err = r.peerFrame(op.F, op.ID)
	case "maxstreams":
		r.sm.HandleMaxStreamsFrame(&wire.MaxStreamsFrame{Type: ptype(op.T), MaxStreamNum: protocol.StreamNum(op.N)})
		r.peerMax[op.T] = max(r.peerMax[op.T], op.N)
	case "complete":
		// what connection.onStreamCompleted does
		if err := r.sm.DeleteStream(protocol.StreamID(op.ID)); err != nil {
			o.delErr = err
		}
	case "tp":
		r.tp(op.N, op.N2)
	case "reset0rtt":
		r.sm.ResetFor0RTT()
		r.resetBook()
	case "usereset":
		r.sm.UseResetMaps()
	case "close":
		r.closed = true
		r.sm.CloseWithError(errClosed)
	case "cmax":
		r.waiters[op.W].cancel()
		r.sm.HandleMaxStreamsFrame(&wire.MaxStreamsFrame{Type: ptype(op.T), MaxStreamNum: protocol.StreamNum(op.N)})
		r.peerMax[op.T] = max(r.peerMax[op.T], op.N)
	case "cframe":
		r.waiters[op.W].cancel()
		o.err = r.peerFrame("stream", op.ID)
	default:
		panic("unknown op " + op.K)
	}
	synctest.Wait()
	o.kind = errKind(o.err)
	r.collect(&o, self)
	return o
}

func (r *rt) collect(o *obs, self *waiterRT) {
	r.mu.Lock()
	defer r.mu.Unlock()
	if self != nil {
		if self.done {
			self.reported = true
			o.err, o.kind, o.id = self.err, errKind(self.err), self.id
		} else {
			o.blocked = true
		}
	}
	if o.woke == nil {
		o.woke = map[int]wexp{}
		o.wokeErr = map[int]error{}
	}
	for h, w := range r.waiters {
		if w.done && !w.reported {
			w.reported = true
			o.woke[h] = wexp{w.id, errKind(w.err)}
			o.wokeErr[h] = w.err
		}
	}
	o.frames = append(o.frames, r.frames...)
	o.created = append(o.created, r.created...)
	o.events = append(o.events, r.events...)
	r.frames, r.created, r.events = nil, nil, nil
}

// closeWith mirrors connection.closeLocal -> handleCloseError -> streamsMap.CloseWithError.
func (r *rt) closeWith(err error, o *obs) {
	if r.closed {
		return
	}
	r.closed = true
	r.sm.CloseWithError(fmt.Errorf("%w (%w)", errClosed, err))
	synctest.Wait()
	r.collect(o, nil)
}

func sortedCopy(a []int64) []int64 {
	b := append([]int64{}, a...)
	sort.Slice(b, func(i, j int) bool { return b[i] < b[j] })
	return b
}

func eq64(a, b []int64) bool {
	if len(a) != len(b) {
		return false
	}
	for i := range a {
		if a[i] != b[i] {
			return false
		}
	}
	return true
}

func (r *rt) kindOf(h int) byte { return r.waiters[h].kind }

// judge compares the observation with the model's requirement. m is the model AFTER the step.
func (r *rt) judge(i int, op Op, e exp, o obs, m *model) *vf.Verdict {
	where := fmt.Sprintf("op #%d %+v", i, op)
	persp := r.p.Persp
	r.mu.Lock()
	np, nc := len(r.panics), len(r.completions)
	var p0 string
	if np > 0 {
		p0 = r.panics[0]
	}
	r.mu.Unlock()
	if np > 0 {
		return vf.Bad("C15/panic", "%s: panic in a blocked caller: %s", where, p0)
	}
	if nc > 0 {
		return vf.Bad("C15/route/unexpected-completion", "%s: a stream reported completion although the harness never reads/cancels streams: %v", where, r.completions)
	}

	// ---- direct property checks on what was observed ----
	var opened [2][]int64
	addOpened := func(t int, id int64) { opened[t] = append(opened[t], id) }
	if o.id >= 0 && (op.K == "open" || op.K == "opensync") {
		addOpened(op.T, o.id)
	}
	var accepted [2][]int64
	if o.id >= 0 && op.K == "accept" {
		accepted[op.T] = append(accepted[op.T], o.id)
	}
	for h, w := range o.woke {
		if w.id < 0 {
			continue
		}
		if r.kindOf(h) == 'o' {
			addOpened(r.waiters[h].t, w.id)
		} else {
			accepted[r.waiters[h].t] = append(accepted[r.waiters[h].t], w.id)
		}
	}
	for t := 0; t < 2; t++ {
		ids := sortedCopy(opened[t])
		for _, id := range ids {
			if idType(id) != t || !idLocal(persp, id) {
				return vf.Bad("C15/outgoing/id-bits", "%s: locally opened stream of type %d got id %d (wrong type/initiator bits for perspective %d)", where, t, id, persp)
			}
			if id > firstOut(persp, t)+4*(r.peerMax[t]-1) {
				return vf.Bad("C15/outgoing/limit-exceeded", "%s: opened stream %d of type %d but the peer's limit is %d streams", where, id, t, r.peerMax[t])
			}
			want := firstOut(persp, t)
			if r.lastOut[t] >= 0 {
				want = r.lastOut[t] + 4
			}
			if id != want {
				return vf.Bad("C15/outgoing/id-sequence", "%s: opened stream id %d of type %d, previous was %d (want %d)", where, id, t, r.lastOut[t], want)
			}
			r.lastOut[t] = id
		}
		for _, id := range sortedCopy(accepted[t]) {
			want := firstIn(persp, t)
			if r.lastAcc[t] >= 0 {
				want = r.lastAcc[t] + 4
			}
			if id != want {
				return vf.Bad("C15/accept/order", "%s: Accept (type %d) returned stream %d, previous was %d (want %d: each stream exactly once, in id order)", where, t, id, r.lastAcc[t], want)
			}
			r.lastAcc[t] = id
		}
	}
	for _, f := range o.frames {
		switch f.Kind {
		case 'M':
			in := m.in[f.T]
			if f.N > in.L+in.released {
				return vf.Bad("C15/incoming/credit-exceeds-completed", "%s: MAX_STREAMS(type %d)=%d but limit %d + %d streams completed and accepted = %d", where, f.T, f.N, in.L, in.released, in.L+in.released)
			}
			if f.N <= r.lastCredit[f.T] {
				return vf.Bad("C15/incoming/credit-not-increasing", "%s: MAX_STREAMS(type %d)=%d after %d was already advertised", where, f.T, f.N, r.lastCredit[f.T])
			}
			r.lastCredit[f.T] = f.N
		case 'B':
			if f.N != r.peerMax[f.T] {
				return vf.Bad("C15/outgoing/blocked-wrong-limit", "%s: STREAMS_BLOCKED(type %d) carries limit %d, the peer's current limit is %d", where, f.T, f.N, r.peerMax[f.T])
			}
			if r.blockedSeen[f.T][f.N] {
				return vf.Bad("C15/outgoing/blocked-duplicate", "%s: second STREAMS_BLOCKED(type %d) for limit %d", where, f.T, f.N)
			}
			r.blockedSeen[f.T][f.N] = true
		default:
			return vf.Bad("C15/frames/unknown", "%s: unexpected control frame type queued", where)
		}
	}
	for _, id := range o.created {
		if !idLocal(persp, id) {
			r.createdIn[idType(id)]++
		}
	}

	// ---- result of the call itself ----
	switch op.K {
	case "open", "opensync":
		switch {
		case e.blocked && !o.blocked:
			if o.err == nil {
				return vf.Bad("C15/outgoing/limit-exceeded", "%s: OpenStreamSync returned stream %d, the model requires it to block (limit %d, queue %v)", where, o.id, m.out[op.T].max, m.out[op.T].queue)
			}
			return vf.Bad("C15/outgoing/sync-not-blocking", "%s: OpenStreamSync returned %v instead of blocking at the limit", where, o.err)
		case !e.blocked && o.blocked:
			return vf.Bad("C15/outgoing/sync-blocked-with-credit", "%s: OpenStreamSync blocks, the model requires %q/id %d", where, e.err, e.id)
		case e.err == "" && !e.blocked && o.kind == "limit-reached":
			return vf.Bad("C15/outgoing/spurious-limit", "%s: StreamLimitReachedError although credit is available (opened %d, limit %d)", where, m.out[op.T].n-1, m.out[op.T].max)
		case e.err == "limit-reached" && o.err == nil:
			return vf.Bad("C15/outgoing/limit-exceeded", "%s: OpenStream returned stream %d at the limit %d", where, o.id, m.out[op.T].max)
		case e.err != o.kind:
			return vf.Bad("C15/outgoing/open-error", "%s: returned %q (%v), want %q", where, o.kind, o.err, e.err)
		case !e.blocked && e.id != o.id:
			return vf.Bad("C15/outgoing/id-sequence", "%s: returned stream %d, want %d", where, o.id, e.id)
		}
	case "accept":
		switch {
		case e.blocked && !o.blocked:
			return vf.Bad("C15/accept/returned-without-stream", "%s: Accept returned (%d, %v) although no unaccepted stream exists", where, o.id, o.err)
		case !e.blocked && o.blocked:
			return vf.Bad("C15/accept/blocked-with-stream", "%s: Accept blocks, the model requires %q/id %d", where, e.err, e.id)
		case e.err != o.kind:
			return vf.Bad("C15/accept/error-kind", "%s: Accept returned %q (%v), want %q", where, o.kind, o.err, e.err)
		case !e.blocked && e.id != o.id:
			return vf.Bad("C15/accept/order", "%s: Accept returned stream %d, want %d", where, o.id, e.id)
		}
	case "frame", "cframe":
		if e.err != o.kind {
			switch {
			case e.err == "stream-limit" && o.err == nil:
				return vf.Bad("C15/incoming/limit-not-enforced", "%s: frame for stream %d accepted, advertised maximum is %d streams of that type", where, op.ID, m.in[idType(op.ID)].adv)
			case e.err == "stream-state" && o.err == nil:
				return vf.Bad("C15/ids/state-error-missing", "%s: frame for stream %d accepted (wrong direction or never-opened local stream)", where, op.ID)
			case e.err == "" && o.kind == "stream-limit":
				return vf.Bad("C15/incoming/spurious-limit-error", "%s: STREAM_LIMIT_ERROR for stream %d within the advertised maximum: %v", where, op.ID, o.err)
			case e.err == "" && o.kind == "stream-state":
				return vf.Bad("C15/ids/spurious-state-error", "%s: STREAM_STATE_ERROR for a valid stream id %d: %v", where, op.ID, o.err)
			}
			return vf.Bad("C15/frames/wrong-error", "%s: returned %q (%v), want %q", where, o.kind, o.err, e.err)
		}
	case "complete":
		if o.delErr != nil {
			return vf.Bad("C15/delete/error", "%s: DeleteStream of a live stream failed (the connection would close): %v", where, o.delErr)
		}
	}

	for t := 0; t < 2; t++ {
		if open := r.createdIn[t] - m.in[t].released; open > m.in[t].L {
			return vf.Bad("C15/incoming/too-many-open", "%s: %d incoming streams of type %d are open, limit %d", where, open, t, m.in[t].L)
		}
	}

	// ---- callers that had to return ----
	var missing, unexpected []int
	for h := range e.wake {
		if _, ok := o.woke[h]; !ok {
			missing = append(missing, h)
		}
	}
	for h := range o.woke {
		if _, ok := e.wake[h]; !ok {
			unexpected = append(unexpected, h)
		}
	}
	sort.Ints(missing)
	sort.Ints(unexpected)
	if len(missing) > 0 || len(unexpected) > 0 {
		servedUnexpected := false
		for _, h := range unexpected {
			if o.woke[h].id >= 0 && r.kindOf(h) == 'o' {
				servedUnexpected = true
			}
		}
		if len(missing) > 0 {
			h := missing[0]
			w := e.wake[h]
			switch {
			case w.err == "closed" || w.err == "0rtt":
				return vf.Bad("C15/lifecycle/still-blocked", "%s: blocked caller #%d was not released with %q", where, h, w.err)
			case w.err == "canceled":
				return vf.Bad("C15/cancel/still-blocked", "%s: caller #%d did not return after its context was cancelled", where, h)
			case r.kindOf(h) == 'a':
				return vf.Bad("C15/accept/not-woken", "%s: blocked Accept #%d was not woken for stream %d", where, h, w.id)
			case servedUnexpected:
				return vf.Bad("C15/outgoing/fifo", "%s: credit went to callers %v, call order requires %v first", where, unexpected, missing)
			default:
				return vf.Bad("C15/outgoing/waiter-not-served", "%s: blocked OpenStreamSync #%d stays blocked although credit for stream %d is available", where, h, w.id)
			}
		}
		h := unexpected[0]
		return vf.Bad("C15/callers/unexpected-return", "%s: caller #%d returned (%d, %q), the model requires it to stay blocked", where, h, o.woke[h].id, o.woke[h].err)
	}
	for h, w := range e.wake {
		g := o.woke[h]
		if g == w {
			continue
		}
		switch {
		case r.kindOf(h) == 'o' && g.id >= 0 && w.id >= 0:
			return vf.Bad("C15/outgoing/fifo", "%s: waiting caller #%d got stream %d, call order requires %d", where, h, g.id, w.id)
		case r.kindOf(h) == 'a' && g.id >= 0 && w.id >= 0:
			return vf.Bad("C15/accept/order", "%s: blocked Accept #%d got stream %d, want %d", where, h, g.id, w.id)
		case w.id >= 0 && r.kindOf(h) == 'o' && g.err == "canceled":
			return vf.Bad("C15/callers/wrong-result", "%s: caller #%d returned canceled but was not cancelled (want stream %d)", where, h, w.id)
		}
		return vf.Bad("C15/callers/wrong-result", "%s: caller #%d returned (%d, %q: %v), want (%d, %q)", where, h, g.id, g.err, o.wokeErr[h], w.id, w.err)
	}

	// ---- control frames: exact multiset (optional ones tolerated) ----
	need := map[fexp]int{}
	for _, f := range e.frames {
		need[f]++
	}
	opt := map[fexp]int{}
	for _, f := range e.optFrames {
		opt[f]++
	}
	for _, f := range o.frames {
		switch {
		case need[f] > 0:
			need[f]--
		case opt[f] > 0:
			opt[f]--
		case f.Kind == 'B':
			return vf.Bad("C15/outgoing/blocked-spurious", "%s: STREAMS_BLOCKED(type %d, limit %d) although no caller is blocked by that limit for the first time", where, f.T, f.N)
		default:
			return vf.Bad("C15/incoming/credit-unexpected", "%s: MAX_STREAMS(type %d)=%d queued, no stream was released in this step", where, f.T, f.N)
		}
	}
	for f, n := range need {
		if n == 0 {
			continue
		}
		if f.Kind == 'M' {
			return vf.Bad("C15/incoming/credit-withheld", "%s: a stream completed and was accepted but MAX_STREAMS(type %d)=%d was not queued (got %v)", where, f.T, f.N, o.frames)
		}
		return vf.Bad("C15/outgoing/blocked-missing", "%s: a caller is blocked by limit %d (type %d) but no STREAMS_BLOCKED was queued for that limit", where, f.N, f.T)
	}

	// ---- streams created ----
	if !eq64(sortedCopy(o.created), sortedCopy(e.created)) {
		in := false
		for _, id := range append(append([]int64{}, o.created...), e.created...) {
			if !idLocal(persp, id) {
				in = true
			}
		}
		if in {
			return vf.Bad("C15/incoming/implicit-open", "%s: streams created %v, want %v (every lower id of the same type is opened implicitly, once)", where, o.created, e.created)
		}
		return vf.Bad("C15/outgoing/created", "%s: streams created %v, want %v", where, o.created, e.created)
	}

	// ---- frame routing ----
	if op.K == "frame" || op.K == "cframe" {
		f := op.F
		if op.K == "cframe" {
			f = "stream"
		}
		switch {
		case e.deliver == -1 && len(o.events) > 0:
			return vf.Bad("C15/route/dead-stream-got-frame", "%s: frame must be ignored or rejected but reached stream(s) %v", where, o.events)
		case e.deliver >= 0:
			for _, id := range o.events {
				if id != e.deliver {
					return vf.Bad("C15/route/misdelivered", "%s: frame for stream %d reached stream %d", where, e.deliver, id)
				}
			}
			first := true
			if f == "stop" {
				first = !r.stopped[e.deliver]
				r.stopped[e.deliver] = true
			}
			if first && len(o.events) == 0 {
				return vf.Bad("C15/route/not-delivered", "%s: frame for live stream %d was not delivered to it", where, e.deliver)
			}
		}
	}
	return nil
}

// result of one history
type result struct {
	v     *vf.Verdict
	flags map[string]bool
	nops  int
	skips int
}

// runCase must be called inside a synctest bubble.
func runCase(c Case) (res result) {
	progress.Add(1)
	curCase.Store(&c)
	m := newModel(c.P)
	r := newRT(c.P)
	res.flags = m.flags
	defer func() {
		if p := recover(); p != nil {
			res.v = vf.Bad("C15/panic", "panic while executing the history: %v", p)
		}
		r.cleanup()
	}()
	i := 0
	apply := func(op Op) *vf.Verdict {
		i++
		var e exp
		var o obs
		if op.K == "cmax" || op.K == "cframe" {
			if !m.raceValid(op) {
				res.skips++
				return nil
			}
			o = r.exec(op)
			h := hint{}
			if w, ok := o.woke[op.W]; ok && w.id >= 0 {
				h.wServed = true
			}
			for _, f := range o.frames {
				if f.Kind == 'B' && f.T == op.T && f.N == op.N {
					h.blockedSeen = true
				}
			}
			e = m.step(op, h)
			if e.skip {
				return vf.Bad("C15/harness/race-precondition", "op %+v: raceValid and step disagree", op)
			}
		} else {
			e = m.step(op, hint{})
			if e.skip {
				res.skips++
				return nil
			}
			o = r.exec(op)
		}
		res.nops++
		if e.closeAfter && o.err != nil {
			r.closeWith(o.err, &o)
		}
		return r.judge(i, op, e, o, m)
	}
	for _, op := range c.Ops {
		if res.v = apply(op); res.v != nil {
			return res
		}
	}
	// final: every incoming stream is handed out exactly once, in order; then the connection closes
	if !m.closed && !m.reset {
		for t := 0; t < 2; t++ {
			if h := m.in[t].acceptor; h >= 0 {
				if res.v = apply(Op{K: "cancel", W: h}); res.v != nil {
					return res
				}
			}
			for m.in[t].nextAccept < m.in[t].opened {
				if res.v = apply(Op{K: "accept", T: t, Pre: true}); res.v != nil {
					return res
				}
			}
		}
	}
	if !m.closed {
		if res.v = apply(Op{K: "close"}); res.v != nil {
			return res
		}
		delete(m.flags, "closed-locally") // the final close is the harness', not part of the history
	}
	r.mu.Lock()
	for h, w := range r.waiters {
		if !w.done {
			res.v = vf.Bad("C15/lifecycle/still-blocked", "caller #%d is still blocked after the connection was closed", h)
		}
	}
	r.mu.Unlock()
	return res
}

// cleanup releases every goroutine so the bubble can end.
func (r *rt) cleanup() {
	defer func() { _ = recover() }()
	for _, w := range r.waiters {
		w.cancel()
	}
	if !r.closed {
		r.closed = true
		r.sm.CloseWithError(errClosed)
	}
	synctest.Wait()
}

// raceValid: preconditions of the race operations (checked before executing them).
func (m *model) raceValid(op Op) bool {
	if !m.framesAllowed() || op.W < 0 || op.W >= len(m.waiters) || op.T < 0 || op.T > 1 {
		return false
	}
	w := m.waiters[op.W]
	switch op.K {
	case "cmax":
		return w.blocked && w.kind == 'o' && w.t == op.T && op.N > m.out[op.T].max && op.N <= maxStreamCount
	case "cframe":
		if op.ID < 0 || idLocal(m.p.Persp, op.ID) {
			return false
		}
		t := idType(op.ID)
		in := m.in[t]
		k := (op.ID - firstIn(m.p.Persp, t)) / 4
		return in.acceptor == op.W && k >= in.opened && k < in.opened+64 && k+1 <= in.adv
	}
	return false
}

var curT *testing.T

var (
	progress atomic.Int64 // histories started (watchdog)
	hung     atomic.Bool
	curCase  atomic.Pointer[Case]
)

// bubble runs f inside a fresh synctest bubble. Panics of the bubble machinery (a goroutine that
// can never exit) become a verdict. A wall-clock watchdog exists only to turn a process that is
// stuck for good (e.g. a mutex left locked by a panicking implementation, which synctest cannot
// see) into a verdict instead of a driver timeout: it fires when no history was started for a
// whole minute, five orders of magnitude above the cost of a history; it never influences a
// verdict otherwise.
func bubble(f func()) (v *vf.Verdict) {
	if hung.Load() {
		return nil // the process is already condemned; do not pile up stuck goroutines
	}
	done := make(chan *vf.Verdict, 1)
	go func() {
		var v *vf.Verdict
		defer func() {
			if p := recover(); p != nil {
				v = vf.Bad("C15/lifecycle/bubble-stuck", "synctest bubble could not end: %v", p)
			}
			done <- v
		}()
		synctest.Test(curT, func(*testing.T) { f() })
	}()
	last := progress.Load()
	tick := time.NewTicker(60 * time.Second)
	defer tick.Stop()
	for {
		select {
		case v := <-done:
			return v
		case <-tick.C:
			cur := progress.Load()
			if cur == last {
				hung.Store(true)
				return vf.Bad("C15/lifecycle/hang", "the history never finished: a call into the streams map blocks for ever outside any channel operation (lock left held?)")
			}
			last = cur
		}
	}
}
