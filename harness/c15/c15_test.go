// C15: stream concurrency limits and stream ID discipline always hold.
//
// Engine: model-based state machine over the streams map (quic.VerifNewStreamsMap), both
// perspectives and both stream types, real streams with real flow controllers, a recording
// control-frame queue, every history inside a testing/synctest bubble so that "OpenStreamSync
// blocks" / "AcceptStream blocks" are decided exactly (synctest.Wait). See NOTES.md.
package c15

import (
	"fmt"
	"testing"

	"github.com/refraction-networking/uquic/verif/vf"
)

func TestMain(m *testing.M) { vf.Main(m) }

var classFlags = []string{
	"in-limit-reached", "credit-reissued", "credit-capped", "deferred-credit", "complete-before-accept", "complete-out-of-order",
	"limit-error", "wrong-direction", "never-opened-local", "implicit-open", "deleted-frame-ignored", "deferred-frame-ignored",
	"open-at-limit", "open-blocked", "queue>=2", "waiter-served", "fifo-multi", "credit-insufficient", "out-credit-after-limit",
	"waiter-cancelled", "cancel-not-last", "acceptor-cancelled", "cancel-after-return", "precancelled",
	"blocked-frame", "stale-maxstreams", "huge-maxstreams", "accept-blocked", "acceptor-woken", "accept-ready",
	"zero-rtt-reset", "zero-rtt-accepted", "use-reset-maps", "closed-locally", "complete-outgoing",
	"race-cancel-maxstreams", "race-w-served", "race-w-cancelled-in-window", "race-cancel-accept",
}

func nonTrivial(fl map[string]bool) bool {
	return (fl["in-limit-reached"] && fl["credit-reissued"]) || fl["out-credit-after-limit"] || fl["waiter-cancelled"]
}

func caseSig(c Case) []byte {
	b := []byte{byte(c.P.Persp), byte(c.P.LBidi), byte(c.P.LUni), byte(c.P.TPBidi), byte(c.P.TPUni)}
	for _, op := range c.Ops {
		b = append(b, op.K[0], op.K[len(op.K)-1], byte(op.T), byte(op.ID), byte(op.ID>>8), byte(op.N), byte(op.N>>8), byte(op.W))
		if op.F != "" {
			b = append(b, op.F[0], op.F[len(op.F)-1])
		}
		if op.Pre {
			b = append(b, 1)
		}
	}
	return b
}

func check(c Case, u *vf.Unit) *vf.Verdict {
	if c.P.Persp != persServer && c.P.Persp != persClient {
		return nil
	}
	if c.P.LBidi < 0 || c.P.LUni < 0 || c.P.TPBidi < 0 || c.P.TPUni < 0 {
		return nil
	}
	var res result
	if v := bubble(func() { res = runCase(c) }); v != nil {
		if hung.Load() {
			return v // res may still be written by the stuck goroutine
		}
		if res.v == nil {
			res.v = v
		}
	}
	if hung.Load() {
		return nil
	}
	if res.v != nil {
		if !vf.ReplayMode() {
			// record a minimised history with the same root cause (greedy removal of operations)
			mc, mv := minimise(c, res.v)
			u.Report(mv, mc)
		}
		return res.v
	}
	for _, f := range classFlags {
		if res.flags[f] {
			u.Class(f)
		}
	}
	if c.P.Persp == persServer {
		u.Class("persp-server")
	} else {
		u.Class("persp-client")
	}
	if res.skips > 0 {
		u.Class("had-skipped-op")
	}
	if nonTrivial(res.flags) {
		u.NonTrivial(caseSig(c))
	}
	return nil
}

func runOnce(c Case) *vf.Verdict {
	var res result
	v := bubble(func() { res = runCase(c) })
	if hung.Load() {
		return v
	}
	if v != nil && res.v == nil {
		res.v = v
	}
	return res.v
}

// minimise greedily drops operations while the verdict keeps its signature. Operations that
// become inapplicable are skipped by the model, so every candidate is a valid history.
func minimise(c Case, v *vf.Verdict) (Case, *vf.Verdict) {
	best, bv := c, v
	for changed, rounds := true, 0; changed && rounds < 6; rounds++ {
		changed = false
		for i := len(best.Ops) - 1; i >= 0; i-- {
			cand := Case{P: best.P, Ops: append(append([]Op{}, best.Ops[:i]...), best.Ops[i+1:]...)}
			if nv := runOnce(cand); nv != nil && nv.Sig == v.Sig {
				best, bv, changed = cand, nv, true
			}
		}
	}
	return best, bv
}

func TestStreamsModel(t *testing.T) {
	curT = t
	vf.RunRapid(t, "streams-model", genCase, check)
}

// ---------------------------------------------------------------------------------------------
// Exhaustive tier: every sequence of symbolic actions up to length L for limits <= 2.

const (
	sPeerNext = iota
	sPeerSkip
	sPeerOld
	sAccept
	sCompleteOldest
	sCompleteNewest
	sOpen
	sOpenSync
	sCancelOpener
	sMaxPlus1
	sMaxPlus2
	sCompleteOut
	nSymbols
)

var symNames = []string{"peer-next", "peer-skip", "peer-old", "accept", "complete-oldest", "complete-newest", "open", "opensync", "cancel-opener", "max+1", "max+2", "complete-out"}

func (m *model) clone() *model {
	c := *m
	c.flags = map[string]bool{}
	for k, v := range m.flags {
		c.flags[k] = v
	}
	c.waiters = append([]waiterM{}, m.waiters...)
	for t := 0; t < 2; t++ {
		o := *m.out[t]
		o.queue = append([]int{}, m.out[t].queue...)
		o.blockedSent = map[int64]bool{}
		for k, v := range m.out[t].blockedSent {
			o.blockedSent[k] = v
		}
		o.deleted = map[int64]bool{}
		for k, v := range m.out[t].deleted {
			o.deleted[k] = v
		}
		c.out[t] = &o
		in := *m.in[t]
		in.st = append([]inStreamM{}, m.in[t].st...)
		c.in[t] = &in
	}
	return &c
}

// resolve turns a symbolic action into a concrete operation for the model state (false: not applicable).
func (m *model) resolve(sym, tt int) (Op, bool) {
	p := m.p.Persp
	in, o := m.in[tt], m.out[tt]
	var liveIn []int64
	for k := int64(0); k < in.opened; k++ {
		if !in.st[k].completed {
			liveIn = append(liveIn, firstIn(p, tt)+4*k)
		}
	}
	switch sym {
	case sPeerNext:
		return Op{K: "frame", F: "stream", ID: firstIn(p, tt) + 4*in.opened}, true
	case sPeerSkip:
		if in.opened+1 >= in.adv {
			return Op{}, false
		}
		return Op{K: "frame", F: "stream", ID: firstIn(p, tt) + 4*(in.opened+1)}, true
	case sPeerOld:
		if in.opened == 0 {
			return Op{}, false
		}
		return Op{K: "frame", F: "reset", ID: firstIn(p, tt)}, true
	case sAccept:
		if in.acceptor >= 0 {
			return Op{K: "cancel", W: in.acceptor}, true
		}
		return Op{K: "accept", T: tt}, true
	case sCompleteOldest:
		if len(liveIn) == 0 {
			return Op{}, false
		}
		return Op{K: "complete", ID: liveIn[0]}, true
	case sCompleteNewest:
		if len(liveIn) < 2 {
			return Op{}, false
		}
		return Op{K: "complete", ID: liveIn[len(liveIn)-1]}, true
	case sOpen:
		return Op{K: "open", T: tt}, true
	case sOpenSync:
		return Op{K: "opensync", T: tt}, true
	case sCancelOpener:
		if len(o.queue) == 0 {
			return Op{}, false
		}
		return Op{K: "cancel", W: o.queue[0]}, true
	case sMaxPlus1:
		return Op{K: "maxstreams", T: tt, N: o.max + 1}, true
	case sMaxPlus2:
		return Op{K: "maxstreams", T: tt, N: o.max + 2}, true
	case sCompleteOut:
		for k := int64(0); k < o.n; k++ {
			if !o.deleted[k] {
				return Op{K: "complete", ID: firstOut(p, tt) + 4*k}, true
			}
		}
		return Op{}, false
	}
	return Op{}, false
}

func TestStreamsExhaustive(t *testing.T) {
	curT = t
	u := vf.U("streams-exhaustive")
	if vf.ReplayMode() {
		t.Skip("exhaustive cases replay through the streams-model unit")
	}
	L := 6
	if vf.Thorough() {
		L = 7
	}
	si, sk := vf.Shard()
	type config struct {
		p  Params
		tt int
	}
	var configs []config
	for _, persp := range []int{persServer, persClient} {
		for tt := 0; tt < 2; tt++ {
			for _, lim := range []int64{1, 2} {
				for _, m0 := range []int64{0, 1} {
					p := Params{Persp: persp, LBidi: lim, LUni: lim, TPBidi: m0, TPUni: m0}
					configs = append(configs, config{p, tt})
				}
			}
		}
	}
	var failure *vf.Verdict
	var failCase Case
	subtree := 0
	ntCount := 0
	var run func(cfg config, m *model, ops []Op, depth int, mine bool)
	exec := func(cfg config, ops []Op) {
		c := Case{P: cfg.p, Ops: append([]Op{}, ops...)}
		u.Case()
		res := runCase(c)
		if res.v != nil {
			failure, failCase = res.v, c
			return
		}
		if nonTrivial(res.flags) {
			ntCount++
			u.NonTrivial(caseSig(c), cfg.tt)
			if ntCount%50021 == 1 && u.WantSample() {
				u.Sample(c)
			}
		}
		for _, f := range []string{"limit-error", "credit-reissued", "deferred-credit", "waiter-served", "waiter-cancelled", "fifo-multi", "implicit-open", "deleted-frame-ignored"} {
			if res.flags[f] {
				u.Class(f)
			}
		}
	}
	run = func(cfg config, m *model, ops []Op, depth int, mine bool) {
		for sym := 0; sym < nSymbols && failure == nil; sym++ {
			sub := mine
			if depth == 1 { // shards split the tree below depth 2
				subtree++
				sub = subtree%sk == si
			}
			if depth >= 1 && !sub {
				continue
			}
			op, ok := m.resolve(sym, cfg.tt)
			if !ok {
				continue
			}
			m2 := m.clone()
			if e := m2.step(op, hint{}); e.skip {
				continue
			}
			ops2 := append(ops, op)
			if depth >= 1 || si == 0 {
				exec(cfg, ops2)
			}
			if depth+1 < L && !m2.closed {
				run(cfg, m2, ops2, depth+1, sub)
			}
		}
	}
	if v := bubble(func() {
		for _, cfg := range configs {
			if failure != nil {
				break
			}
			run(cfg, newModel(cfg.p), nil, 0, false)
		}
	}); v != nil && (failure == nil || hung.Load()) {
		failure = v
		if hung.Load() {
			failCase = *curCase.Load()
		}
	}
	u.Extra("exhaustive", fmt.Sprintf("all sequences of length<=%d over %d symbolic actions %v (inapplicable actions pruned, nothing after a connection error), for perspective x stream type x incoming limit {1,2} x initial peer limit {0,1}", L, nSymbols, symNames))
	if failure != nil {
		if vf.U("streams-model").Report(failure, failCase) {
			t.Fatalf("VIOLATION %s: %s (case %+v)", failure.Sig, failure.Detail, failCase)
		}
	}
}
