package c15

// streams-concurrent: schedule sampling for the outgoing side. Several goroutines call
// OpenStreamSync while the root goroutine cancels some of them, delivers MAX_STREAMS frames and
// calls OpenStream, WITHOUT waiting for quiescence in between (only at explicit "wait" events).
// Call order is then undefined, so only order-free invariants are decided, at the final
// quiescent point:
//   - the ids handed out are exactly the first S ids of the type (distinct, no gaps), S <= limit;
//   - no lost wake-up: if a caller that was not cancelled is still blocked, all credit is used;
//   - a caller that was not cancelled never returns an error;
//   - at most one STREAMS_BLOCKED per limit value, each carrying a limit that was in force, and one
//     for the final limit if somebody is still blocked by it.

import (
	"runtime"
	"testing"
	"testing/synctest"

	"pgregory.net/rapid"

	"github.com/refraction-networking/uquic/internal/protocol"
	"github.com/refraction-networking/uquic/internal/wire"
	"github.com/refraction-networking/uquic/verif/vf"
)

type CEvent struct {
	K string `json:"k"` // spawn | cancel | max | open | yield | wait
	I int    `json:"i,omitempty"`
	N int64  `json:"n,omitempty"`
}

type CCase struct {
	Persp int      `json:"persp"`
	T     int      `json:"t"`
	M0    int64    `json:"m0"`
	Ev    []CEvent `json:"ev"`
}

func genCCase(rt *rapid.T) CCase {
	a := rapid.Uint64().Draw(rt, "seed-a")
	b := rapid.Uint64().Draw(rt, "seed-b")
	t := &rng{s: a*0x9e3779b97f4a7c15 ^ (b+0x632be59bd9b4e019)*0xd6e8feb86659fd93}
	c := CCase{Persp: []int{persServer, persClient}[t.rg(0, 1)], T: t.rg(0, 1), M0: int64(t.rg(0, 2))}
	n := t.rg(3, 24)
	spawned := 0
	for i := 0; i < n; i++ {
		switch pick(t, "", 34, 16, 20, 6, 12, 12) {
		case 0:
			c.Ev = append(c.Ev, CEvent{K: "spawn"})
			spawned++
		case 1:
			if spawned == 0 {
				continue
			}
			c.Ev = append(c.Ev, CEvent{K: "cancel", I: t.rg(0, spawned-1)})
		case 2:
			c.Ev = append(c.Ev, CEvent{K: "max", N: int64(t.rg(1, 3))})
		case 3:
			c.Ev = append(c.Ev, CEvent{K: "open"})
		case 4:
			c.Ev = append(c.Ev, CEvent{K: "yield"})
		default:
			c.Ev = append(c.Ev, CEvent{K: "wait"})
		}
	}
	return c
}

func runCCase(c CCase) (v *vf.Verdict, nt bool) {
	progress.Add(1)
	r := newRT(Params{Persp: c.Persp, TPBidi: c.M0, TPUni: c.M0})
	defer func() {
		if p := recover(); p != nil {
			v = vf.Bad("C15/panic", "panic in concurrent history: %v", p)
		}
		r.cleanup()
	}()
	limit := c.M0
	limits := map[int64]bool{limit: true}
	var ws []*waiterRT
	cancelled := map[int]bool{}
	var direct []int64
	for _, ev := range c.Ev {
		switch ev.K {
		case "spawn":
			ws = append(ws, r.spawn('o', c.T, false))
		case "cancel":
			if ev.I >= 0 && ev.I < len(ws) {
				ws[ev.I].cancel()
				cancelled[ev.I] = true
			}
		case "max":
			if ev.N <= 0 || ev.N > 16 {
				continue
			}
			limit += ev.N
			limits[limit] = true
			r.sm.HandleMaxStreamsFrame(&wire.MaxStreamsFrame{Type: ptype(c.T), MaxStreamNum: protocol.StreamNum(limit)})
		case "open":
			var id int64
			var err error
			if c.T == 0 {
				s, e := r.sm.OpenStream()
				if err = e; e == nil {
					id = int64(s.StreamID())
				}
			} else {
				s, e := r.sm.OpenUniStream()
				if err = e; e == nil {
					id = int64(s.StreamID())
				}
			}
			if err == nil {
				direct = append(direct, id)
			} else if errKind(err) != "limit-reached" {
				return vf.Bad("C15/concurrent/open-error", "OpenStream returned %v", err), false
			}
		case "yield":
			runtime.Gosched()
		case "wait":
			synctest.Wait()
		}
	}
	synctest.Wait()
	r.mu.Lock()
	ids := append([]int64{}, direct...)
	blocked := 0
	for i, w := range ws {
		switch {
		case !w.done:
			if cancelled[i] {
				r.mu.Unlock()
				return vf.Bad("C15/cancel/still-blocked", "caller %d did not return after its context was cancelled", i), false
			}
			blocked++
		case w.err == nil:
			ids = append(ids, w.id)
		case !cancelled[i] || errKind(w.err) != "canceled":
			r.mu.Unlock()
			return vf.Bad("C15/concurrent/spurious-error", "caller %d (cancelled=%v) returned %v", i, cancelled[i], w.err), false
		}
	}
	frames := append([]fexp{}, r.frames...)
	np := len(r.panics)
	r.mu.Unlock()
	if np > 0 {
		return vf.Bad("C15/panic", "panic in a caller: %v", r.panics), false
	}
	ids = sortedCopy(ids)
	S := int64(len(ids))
	for i, id := range ids {
		if want := firstOut(c.Persp, c.T) + 4*int64(i); id != want {
			return vf.Bad("C15/concurrent/id-set", "ids handed out %v: position %d should be %d (distinct, contiguous, right type/initiator)", ids, i, want), false
		}
	}
	if S > limit {
		return vf.Bad("C15/outgoing/limit-exceeded", "%d streams opened, the peer's limit is %d", S, limit), false
	}
	if blocked > 0 && S < limit {
		return vf.Bad("C15/outgoing/waiter-not-served", "%d caller(s) still blocked although only %d of %d streams are in use (lost wake-up)", blocked, S, limit), false
	}
	seen := map[int64]bool{}
	for _, f := range frames {
		if f.Kind != 'B' || f.T != c.T {
			return vf.Bad("C15/frames/unknown", "unexpected control frame %+v", f), false
		}
		if !limits[f.N] {
			return vf.Bad("C15/outgoing/blocked-wrong-limit", "STREAMS_BLOCKED carries %d, limits in force were %v", f.N, limits), false
		}
		if seen[f.N] {
			return vf.Bad("C15/outgoing/blocked-duplicate", "second STREAMS_BLOCKED for limit %d", f.N), false
		}
		seen[f.N] = true
	}
	if blocked > 0 && !seen[limit] {
		return vf.Bad("C15/outgoing/blocked-missing", "%d caller(s) blocked by the final limit %d but no STREAMS_BLOCKED for it (got %v)", blocked, limit, frames), false
	}
	// closing releases everyone
	r.closed = true
	r.sm.CloseWithError(errClosed)
	synctest.Wait()
	r.mu.Lock()
	defer r.mu.Unlock()
	for i, w := range ws {
		if !w.done {
			return vf.Bad("C15/lifecycle/still-blocked", "caller %d still blocked after CloseWithError", i), false
		}
	}
	return nil, len(cancelled) > 0 || (len(limits) > 1 && len(ws) > 0)
}

func TestStreamsConcurrent(t *testing.T) {
	curT = t
	vf.RunRapid(t, "streams-concurrent", genCCase, func(c CCase, u *vf.Unit) *vf.Verdict {
		if c.Persp != persServer && c.Persp != persClient || c.T < 0 || c.T > 1 || c.M0 < 0 || c.M0 > 16 {
			return nil
		}
		var v *vf.Verdict
		var nt bool
		if bv := bubble(func() { v, nt = runCCase(c) }); bv != nil {
			if hung.Load() {
				return bv
			}
			if v == nil {
				v = bv
			}
		}
		if hung.Load() {
			return nil
		}
		if v != nil {
			return v
		}
		if nt {
			sig := []byte{byte(c.Persp), byte(c.T), byte(c.M0)}
			for _, e := range c.Ev {
				sig = append(sig, e.K[0], byte(e.I), byte(e.N))
			}
			u.NonTrivial(sig)
			u.Class("raced")
		}
		return nil
	})
}
