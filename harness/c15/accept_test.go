package c15

// accept-concurrent: several goroutines blocked in Accept(Uni)Stream / Open(Uni)StreamSync at the
// same time (a pool of accept workers, several request goroutines waiting for stream credit),
// against a peer that opens streams / raises MAX_STREAMS in separate steps.
//
// The other units of this package drive ONE acceptor per stream type (sequential machines), so the
// code that decides WHICH parked caller takes WHICH stream after a wake-up is executed there with a
// single candidate only. Here every history runs K = 1..4 worker goroutines per stream type, each
// calling Accept / OpenSync 1..3 times in a loop on one context, inside a testing/synctest bubble.
// The root goroutine plays the connection's run loop (peer frames, completions, MAX_STREAMS, close)
// and the application (spawn, cancel); after every step it waits for quiescence (synctest.Wait:
// every worker has finished or is durably parked) and audits order-free invariants that follow from
// the property text:
//
//   - "accepted streams are returned exactly once each, in ID order": the ids returned so far by all
//     Accept calls of a type are distinct, were all opened by the peer, and form the lowest
//     |returned| ids of the type (nothing skipped); one goroutine's successive results increase;
//   - no lost wake-up: a parked acceptor and an opened-but-unreturned stream never coexist at
//     quiescence; at the end every opened stream has come out of exactly one call;
//   - a cancelled caller returns (context error, or a stream that then counts), nobody else sees an
//     error before the connection is closed;
//   - "further credit is issued ... only as streams fully complete": MAX_STREAMS increases strictly,
//     never exceeds limit + #(completed and returned), and reaches it at quiescence;
//   - local opens: the ids handed out are the first S ids of the type, S <= the peer's limit; if an
//     uncancelled OpenSync caller is parked all credit is in use; "waiting callers are served in
//     arrival order": first calls of workers spawned one after the other (each spawn is followed by
//     a barrier) are served in spawn order; one STREAMS_BLOCKED per limit;
//   - CloseWithError releases everybody with the close error.
//
// Scheduling: who of several woken goroutines runs first is the Go scheduler's choice (GOMAXPROCS
// varies by shard); the two-step races "cancel a parked caller, then deliver a stream / credit
// without a barrier in between" (and the reverse order) are generated as single operations. One more
// preemption point is made deterministic with a context whose Done() method pauses the caller: both
// AcceptStream and OpenStreamSync evaluate ctx.Done() after they looked at the map, found nothing and
// released the mutex, i.e. exactly between "decided to sleep" and "asleep". A worker spawned with a
// gate stops there until the root goroutine releases it.

import (
	"context"
	"encoding/json"
	"fmt"
	"os"
	"runtime"
	"sort"
	"testing"
	"testing/synctest"

	"pgregory.net/rapid"

	"github.com/refraction-networking/uquic/internal/protocol"
	"github.com/refraction-networking/uquic/internal/wire"
	"github.com/refraction-networking/uquic/verif/vf"
)

// AOp is one step of the root goroutine.
//
//	acc     T N G Pre  spawn a worker calling Accept(Uni)Stream N times (G>0: pause in its G-th ctx.Done(); Pre: context already cancelled)
//	opn     T N G Pre  spawn a worker calling Open(Uni)StreamSync N times
//	cancel  W          cancel worker W's context
//	release W          let the paused worker W continue
//	frame   T N F      peer frame F (stream|reset) for the next stream of type T, skipping N ids (capped by the advertised limit)
//	old     T N        STREAM frame for an already opened peer stream (N mod #opened)
//	complete T N       the (N mod #live)-th live incoming stream of type T completes (DeleteStream), accepted or not
//	max     T N        peer MAX_STREAMS raising the limit by N (0: duplicate)
//	open    T          OpenStream / OpenUniStream
//	cframe  W T N      cancel W, then frame (no barrier in between)
//	framec  W T N      frame, then cancel W (no barrier in between)
//	cmax    W T N      cancel W, then MAX_STREAMS +N (no barrier in between)
//	maxc    W T N      MAX_STREAMS +N, then cancel W
//	close              CloseWithError
type AOp struct {
	K   string `json:"k"`
	T   int    `json:"t,omitempty"`
	N   int    `json:"n,omitempty"`
	W   int    `json:"w,omitempty"`
	G   int    `json:"g,omitempty"`
	F   string `json:"f,omitempty"`
	Pre bool   `json:"pre,omitempty"`
}

type ACase struct {
	Persp int      `json:"persp"`
	L     [2]int64 `json:"l"`  // incoming limits (bidi, uni)
	M0    [2]int64 `json:"m0"` // peer's initial limits
	Ops   []AOp    `json:"ops"`
}

type aworker struct {
	kind   byte // 'a' | 'o'
	t      int
	calls  int
	gateAt int
	gate   chan struct{}
	cancel context.CancelFunc

	// guarded by rt.mu
	doneCalls int
	gated     bool
	released  bool
	cancelled bool
	done      bool
	ids       []int64
	err       error
}

// gateCtx pauses the caller inside ctx.Done(), i.e. after the map released its mutex and before the
// caller sleeps in select. It stands for a goroutine that is descheduled at that point.
type gateCtx struct {
	context.Context
	r *rt
	w *aworker
	a *arun
}

func (g *gateCtx) Done() <-chan struct{} {
	g.r.mu.Lock()
	g.w.doneCalls++
	stop := g.w.gateAt > 0 && g.w.doneCalls == g.w.gateAt && !g.w.released
	if stop {
		g.w.gated = true
		if g.w.kind == 'a' {
			g.a.hadGate[g.w.t] = true
		}
	}
	g.r.mu.Unlock()
	if stop {
		<-g.w.gate
		g.r.mu.Lock()
		g.w.gated = false
		g.r.mu.Unlock()
	}
	return g.Context.Done()
}

type arun struct {
	c  ACase
	r  *rt
	ws []*aworker

	opened    [2]int64
	completed [2]map[int64]bool
	limit     [2]int64
	limits    [2]map[int64]bool
	direct    [2][]int64
	closed    bool
	final     bool
	hadGate   [2]bool // an acceptor of this type was paused in the window at some time (guarded by rt.mu)

	frames  []fexp
	created []int64

	// class bookkeeping
	cl        map[string]bool
	streak    [2]int
	ostreak   [2]int
	maxParked [2]int
	maxOPark  [2]int
	delParked [2]bool
	skipped   int
}

func (a *arun) flag(s string) { a.cl[s] = true }

func (a *arun) spawn(op AOp, kind byte) {
	if op.T < 0 || op.T > 1 || op.N < 1 || op.N > 8 {
		return
	}
	base, cancel := context.WithCancel(context.Background())
	if op.Pre {
		cancel()
	}
	w := &aworker{kind: kind, t: op.T, calls: op.N, gateAt: op.G, gate: make(chan struct{}), cancel: cancel, cancelled: op.Pre}
	var ctx context.Context = base
	if op.G > 0 {
		ctx = &gateCtx{Context: base, r: a.r, w: w, a: a}
	}
	a.ws = append(a.ws, w)
	r := a.r
	go func() {
		defer func() {
			if p := recover(); p != nil {
				r.mu.Lock()
				r.panics = append(r.panics, fmt.Sprint(p))
				w.err = fmt.Errorf("panic: %v", p)
				r.mu.Unlock()
			}
			r.mu.Lock()
			w.done = true
			r.mu.Unlock()
		}()
		for i := 0; i < w.calls; i++ {
			id := int64(-1)
			var err error
			switch {
			case kind == 'a' && w.t == 0:
				s, e := r.sm.AcceptStream(ctx)
				if err = e; e == nil {
					id = int64(s.StreamID())
				}
			case kind == 'a':
				s, e := r.sm.AcceptUniStream(ctx)
				if err = e; e == nil {
					id = int64(s.StreamID())
				}
			case w.t == 0:
				s, e := r.sm.OpenStreamSync(ctx)
				if err = e; e == nil {
					id = int64(s.StreamID())
				}
			default:
				s, e := r.sm.OpenUniStreamSync(ctx)
				if err = e; e == nil {
					id = int64(s.StreamID())
				}
			}
			r.mu.Lock()
			if err != nil {
				w.err = err
				r.mu.Unlock()
				return
			}
			w.ids = append(w.ids, id)
			r.mu.Unlock()
		}
	}()
}

// parked counts the workers of a kind/type that are asleep inside the map and not cancelled.
// Call at quiescence only.
func (a *arun) parked(kind byte, t int) (n int) {
	a.r.mu.Lock()
	defer a.r.mu.Unlock()
	for _, w := range a.ws {
		if w.kind == kind && w.t == t && !w.done && !w.gated && !w.cancelled {
			n++
		}
	}
	return n
}

func (a *arun) adv(t int) int64 {
	adv := a.c.L[t]
	for _, f := range a.frames {
		if f.Kind == 'M' && f.T == t && f.N > adv {
			adv = f.N
		}
	}
	return adv
}

func (a *arun) cancelW(i int) bool {
	if i < 0 || i >= len(a.ws) {
		return false
	}
	w := a.ws[i]
	a.r.mu.Lock()
	was := !w.done && !w.cancelled
	gated := w.gated
	w.cancelled = true
	a.r.mu.Unlock()
	w.cancel()
	if was && !a.final {
		if gated {
			a.flag("cancelled-in-window")
		} else if w.kind == 'a' {
			a.flag("cancelled-while-parked")
		} else {
			a.flag("opener-cancelled-while-parked")
		}
	}
	return was
}

// peerOpen delivers a frame that opens new stream(s) of type t, skipping n ids. false: no credit.
func (a *arun) peerOpen(t, n int, f string) (bool, *vf.Verdict) {
	if n < 0 || n > 8 {
		return false, nil
	}
	if f != "reset" {
		f = "stream"
	}
	idx := a.opened[t] + int64(n)
	if adv := a.adv(t); idx > adv-1 {
		idx = adv - 1
	}
	if idx < a.opened[t] {
		return false, nil
	}
	p := a.parked('a', t)
	newN := int(idx - a.opened[t] + 1)
	id := firstIn(a.c.Persp, t) + 4*idx
	if err := a.r.peerFrame(f, id); err != nil {
		if errKind(err) == "stream-limit" {
			return true, vf.Bad("C15/incoming/spurious-limit-error", "%s frame for stream %d (number %d of its type) refused although %d streams are advertised: %v", f, id, idx+1, a.adv(t), err)
		}
		return true, vf.Bad("C15/frames/wrong-error", "%s frame for stream %d returned %v", f, id, err)
	}
	a.opened[t] = idx + 1
	// classes
	switch {
	case p >= 2:
		if a.streak[t] == 0 {
			a.streak[t] = 1
		} else {
			a.streak[t]++
		}
	case p == 1 && a.streak[t] >= 1:
		a.streak[t]++
	default:
		a.streak[t] = 0
	}
	if a.streak[t] >= 2 {
		a.flag("two-parked-then-two-arrivals")
	}
	if a.streak[t] >= 3 {
		a.flag("three-arrival-steps")
	}
	if p >= 2 && newN >= 2 {
		a.flag("implicit-open-with-parked>=2")
	}
	if p >= 1 && newN > p {
		a.flag("more-streams-than-parked")
	}
	if p >= 1 && a.delParked[t] {
		a.flag("arrival-after-delete-with-parked")
	}
	if p >= 1 {
		a.flag("arrival-with-parked")
	}
	return true, nil
}

func (a *arun) maxStreams(t, n int) {
	if n < 0 || n > 16 {
		return
	}
	p := a.parked('o', t)
	a.limit[t] += int64(n)
	a.limits[t][a.limit[t]] = true
	a.r.sm.HandleMaxStreamsFrame(&wire.MaxStreamsFrame{Type: ptype(t), MaxStreamNum: protocol.StreamNum(a.limit[t])})
	if n == 0 {
		return
	}
	switch {
	case p >= 2:
		a.ostreak[t]++
	case p == 1 && a.ostreak[t] >= 1:
		a.ostreak[t]++
	default:
		a.ostreak[t] = 0
	}
	if a.ostreak[t] >= 2 {
		a.flag("credit-in-steps")
	}
	if p >= 2 && n < p {
		a.flag("credit-for-some")
	}
	if p >= 1 {
		a.flag("credit-with-parked")
	}
}

func (a *arun) apply(op AOp) *vf.Verdict {
	if a.closed {
		switch op.K {
		case "cancel", "release":
		default:
			a.skipped++
			return nil
		}
	}
	if op.T < 0 || op.T > 1 {
		return nil
	}
	switch op.K {
	case "acc":
		if a.opened[op.T] > int64(len(a.returnedSet('a', op.T))) {
			a.flag("accept-after-lag")
		}
		a.spawn(op, 'a')
	case "opn":
		a.spawn(op, 'o')
	case "cancel":
		a.cancelW(op.W)
	case "release":
		if op.W >= 0 && op.W < len(a.ws) {
			w := a.ws[op.W]
			a.r.mu.Lock()
			rel := w.released
			w.released = true
			g := w.gated
			a.r.mu.Unlock()
			if !rel {
				close(w.gate)
				if g {
					a.flag("window-released")
				}
			}
		}
	case "frame":
		ok, v := a.peerOpen(op.T, op.N, op.F)
		if v != nil {
			return v
		}
		if !ok {
			a.skipped++
		}
	case "old":
		if a.opened[op.T] == 0 || op.N < 0 {
			a.skipped++
			return nil
		}
		idx := int64(op.N) % a.opened[op.T]
		id := firstIn(a.c.Persp, op.T) + 4*idx
		if err := a.r.peerFrame("stream", id); err != nil {
			return vf.Bad("C15/frames/wrong-error", "STREAM frame for the already opened stream %d returned %v", id, err)
		}
		a.flag("frame-for-old-stream")
	case "complete":
		var live []int64
		for k := int64(0); k < a.opened[op.T]; k++ {
			if !a.completed[op.T][k] {
				live = append(live, k)
			}
		}
		if len(live) == 0 || op.N < 0 {
			a.skipped++
			return nil
		}
		k := live[op.N%len(live)]
		id := firstIn(a.c.Persp, op.T) + 4*k
		ret := a.returnedSet('a', op.T)
		if err := a.r.sm.DeleteStream(protocol.StreamID(id)); err != nil {
			return vf.Bad("C15/delete/error", "DeleteStream(%d) of a live stream failed (the connection would close): %v", id, err)
		}
		a.completed[op.T][k] = true
		if ret[id] {
			a.flag("stream-completed-after-accept")
			if a.parked('a', op.T) > 0 {
				a.delParked[op.T] = true
			}
		} else {
			a.flag("stream-completed-before-accept")
		}
	case "max":
		a.maxStreams(op.T, op.N)
	case "open":
		var id int64
		var err error
		if op.T == 0 {
			s, e := a.r.sm.OpenStream()
			if err = e; e == nil {
				id = int64(s.StreamID())
			}
		} else {
			s, e := a.r.sm.OpenUniStream()
			if err = e; e == nil {
				id = int64(s.StreamID())
			}
		}
		if err == nil {
			a.direct[op.T] = append(a.direct[op.T], id)
		} else if errKind(err) != "limit-reached" {
			return vf.Bad("C15/concurrent/open-error", "OpenStream returned %v", err)
		}
	case "cframe":
		if a.cancelW(op.W) {
			a.flag("race-cancel-then-frame")
		}
		if _, v := a.peerOpen(op.T, op.N, op.F); v != nil {
			return v
		}
	case "framec":
		_, v := a.peerOpen(op.T, op.N, op.F)
		if a.cancelW(op.W) {
			a.flag("race-frame-then-cancel")
		}
		if v != nil {
			return v
		}
	case "cmax":
		if a.cancelW(op.W) {
			a.flag("race-cancel-then-max")
		}
		a.maxStreams(op.T, op.N)
	case "maxc":
		a.maxStreams(op.T, op.N)
		if a.cancelW(op.W) {
			a.flag("race-max-then-cancel")
		}
	case "close":
		for t := 0; t < 2; t++ {
			if a.parked('a', t) >= 2 {
				a.flag("close-with-parked-acceptors>=2")
			}
			if a.parked('o', t) >= 2 {
				a.flag("close-with-parked-openers>=2")
			}
		}
		a.closed = true
		a.r.closed = true
		a.r.sm.CloseWithError(errClosed)
	default:
		return nil
	}
	synctest.Wait()
	return a.audit(fmt.Sprintf("after %+v", op))
}

// returnedSet: ids returned so far by the workers of a kind/type (plus direct opens for 'o').
func (a *arun) returnedSet(kind byte, t int) map[int64]bool {
	a.r.mu.Lock()
	defer a.r.mu.Unlock()
	s := map[int64]bool{}
	for _, w := range a.ws {
		if w.kind == kind && w.t == t {
			for _, id := range w.ids {
				s[id] = true
			}
		}
	}
	return s
}

// audit checks the invariants at a quiescent point.
func (a *arun) audit(where string) *vf.Verdict {
	r := a.r
	r.mu.Lock()
	a.frames = append(a.frames, r.frames...)
	a.created = append(a.created, r.created...)
	r.frames, r.created = nil, nil
	np := len(r.panics)
	var p0 string
	if np > 0 {
		p0 = r.panics[0]
	}
	nc := len(r.completions)
	type snap struct {
		kind                           byte
		t                              int
		gated, cancelled, done, gateOn bool
		ids                            []int64
		err                            error
	}
	ws := make([]snap, len(a.ws))
	for i, w := range a.ws {
		ws[i] = snap{w.kind, w.t, w.gated, w.cancelled, w.done, w.gateAt > 0, append([]int64{}, w.ids...), w.err}
	}
	r.mu.Unlock()
	if np > 0 {
		return vf.Bad("C15/panic", "%s: panic in a caller: %s", where, p0)
	}
	if nc > 0 {
		return vf.Bad("C15/route/unexpected-completion", "%s: a stream reported completion although the harness never reads/cancels streams", where)
	}
	persp := a.c.Persp
	for i, w := range ws {
		// errors
		if w.err != nil {
			k := errKind(w.err)
			ok := (k == "canceled" && w.cancelled) || (k == "closed" && a.closed)
			if !ok {
				if w.kind == 'a' {
					return vf.Bad("C15/accept/error-kind", "%s: Accept worker #%d (cancelled=%v, connection closed=%v) returned %v", where, i, w.cancelled, a.closed, w.err)
				}
				return vf.Bad("C15/concurrent/spurious-error", "%s: OpenStreamSync worker #%d (cancelled=%v, connection closed=%v) returned %v", where, i, w.cancelled, a.closed, w.err)
			}
		}
		if !w.done && !w.gated {
			if a.closed {
				return vf.Bad("C15/lifecycle/still-blocked", "%s: worker #%d (%c) still blocked after CloseWithError", where, i, w.kind)
			}
			if w.cancelled {
				return vf.Bad("C15/cancel/still-blocked", "%s: worker #%d (%c) did not return after its context was cancelled", where, i, w.kind)
			}
		}
		for j := 1; j < len(w.ids); j++ {
			if w.ids[j] <= w.ids[j-1] {
				if w.kind == 'a' {
					return vf.Bad("C15/accept/order", "%s: Accept worker #%d got streams %v: one caller's successive results must increase", where, i, w.ids)
				}
				return vf.Bad("C15/outgoing/id-sequence", "%s: OpenStreamSync worker #%d got streams %v: not strictly increasing", where, i, w.ids)
			}
		}
	}
	for t := 0; t < 2; t++ {
		// ---------------- incoming ----------------
		var ret []int64
		parked, gated := 0, 0
		for _, w := range ws {
			if w.kind != 'a' || w.t != t {
				continue
			}
			ret = append(ret, w.ids...)
			switch {
			case w.done:
			case w.gated:
				gated++
			case !w.cancelled:
				parked++
			}
		}
		a.maxParked[t] = max(a.maxParked[t], parked)
		ret = sortedCopy(ret)
		first := firstIn(persp, t)
		for i, id := range ret {
			if i > 0 && id == ret[i-1] {
				return vf.Bad("C15/accept/duplicate", "%s: stream %d was returned by two Accept calls (returned so far: %v, peer opened %d streams)", where, id, ret, a.opened[t])
			}
			if idType(id) != t || idLocal(persp, id) || id < first || (id-first)%4 != 0 || (id-first)/4 >= a.opened[t] {
				return vf.Bad("C15/accept/returned-without-stream", "%s: Accept returned stream %d which the peer never opened (type %d, %d streams opened)", where, id, t, a.opened[t])
			}
		}
		for i, id := range ret {
			if want := first + 4*int64(i); id != want {
				return vf.Bad("C15/accept/skipped", "%s: streams returned so far %v: stream %d was passed over (each stream exactly once, in id order)", where, ret, want)
			}
		}
		unacc := a.opened[t] - int64(len(ret))
		if parked > 0 && unacc > 0 && !a.closed {
			sig := "C15/accept/not-woken"
			r.mu.Lock()
			hg := a.hadGate[t]
			r.mu.Unlock()
			if hg {
				sig = "C15/accept/not-woken-window"
			}
			return vf.Bad(sig, "%s: %d Accept caller(s) of type %d are parked although %d opened stream(s) (next: %d) were never returned (lost wake-up)", where, parked, t, unacc, first+4*int64(len(ret)))
		}
		// streams created: exactly the opened ids, once each
		var cr []int64
		for _, id := range a.created {
			if !idLocal(persp, id) && idType(id) == t {
				cr = append(cr, id)
			}
		}
		cr = sortedCopy(cr)
		if int64(len(cr)) != a.opened[t] {
			return vf.Bad("C15/incoming/implicit-open", "%s: %d incoming streams of type %d were created (%v), the peer opened %d", where, len(cr), t, cr, a.opened[t])
		}
		for i, id := range cr {
			if id != first+4*int64(i) {
				return vf.Bad("C15/incoming/implicit-open", "%s: incoming streams created %v (every lower id once)", where, cr)
			}
		}
		// credit
		released := int64(0)
		for _, id := range ret {
			if a.completed[t][(id-first)/4] {
				released++
			}
		}
		last := a.c.L[t]
		for _, f := range a.frames {
			if f.Kind != 'M' || f.T != t {
				continue
			}
			if f.N <= last {
				return vf.Bad("C15/incoming/credit-not-increasing", "%s: MAX_STREAMS(type %d)=%d after %d was already advertised", where, t, f.N, last)
			}
			last = f.N
		}
		if last > a.c.L[t]+released {
			return vf.Bad("C15/incoming/credit-exceeds-completed", "%s: MAX_STREAMS(type %d)=%d but limit %d + %d streams completed and accepted = %d", where, t, last, a.c.L[t], released, a.c.L[t]+released)
		}
		if last < a.c.L[t]+released && !a.closed {
			return vf.Bad("C15/incoming/credit-withheld", "%s: %d streams of type %d completed and were accepted, MAX_STREAMS stays at %d (limit %d)", where, released, t, last, a.c.L[t])
		}

		// ---------------- outgoing ----------------
		ids := append([]int64{}, a.direct[t]...)
		oparked, ogated := 0, 0
		for _, w := range ws {
			if w.kind != 'o' || w.t != t {
				continue
			}
			ids = append(ids, w.ids...)
			switch {
			case w.done:
			case w.gated:
				ogated++
			case !w.cancelled:
				oparked++
			}
		}
		a.maxOPark[t] = max(a.maxOPark[t], oparked)
		ids = sortedCopy(ids)
		S := int64(len(ids))
		for i, id := range ids {
			if want := firstOut(persp, t) + 4*int64(i); id != want {
				return vf.Bad("C15/concurrent/id-set", "%s: ids handed out %v: position %d should be %d (distinct, contiguous, right type/initiator)", where, ids, i, want)
			}
		}
		if S > a.limit[t] {
			return vf.Bad("C15/outgoing/limit-exceeded", "%s: %d streams of type %d opened, the peer's limit is %d", where, S, t, a.limit[t])
		}
		// a paused caller legitimately holds the head of the queue: judge only without one
		if oparked > 0 && ogated == 0 && S < a.limit[t] && !a.closed {
			return vf.Bad("C15/outgoing/waiter-not-served", "%s: %d OpenStreamSync caller(s) of type %d parked although only %d of %d streams are in use (lost wake-up)", where, oparked, t, S, a.limit[t])
		}
		// arrival order of first calls (spawns are separated by barriers)
		var prev *snap
		prevI := -1
		for i := range ws {
			w := &ws[i]
			if w.kind != 'o' || w.t != t {
				continue
			}
			if len(w.ids) > 0 {
				if prev != nil && len(prev.ids) > 0 && prev.ids[0] > w.ids[0] {
					return vf.Bad("C15/outgoing/fifo", "%s: worker #%d called OpenStreamSync before worker #%d but got stream %d, the later caller got %d", where, prevI, i, prev.ids[0], w.ids[0])
				}
				for j := 0; j < i; j++ {
					e := &ws[j]
					if e.kind == 'o' && e.t == t && len(e.ids) == 0 && !e.done && !e.gated && !e.cancelled && !e.gateOn && !a.closed {
						return vf.Bad("C15/outgoing/fifo", "%s: worker #%d is still waiting for its first stream, worker #%d which called later was served (stream %d)", where, j, i, w.ids[0])
					}
				}
				prev, prevI = w, i
			}
		}
		seen := map[int64]bool{}
		for _, f := range a.frames {
			if f.Kind != 'B' || f.T != t {
				continue
			}
			if !a.limits[t][f.N] {
				return vf.Bad("C15/outgoing/blocked-wrong-limit", "%s: STREAMS_BLOCKED(type %d) carries %d, limits in force were %v", where, t, f.N, a.limits[t])
			}
			if seen[f.N] {
				return vf.Bad("C15/outgoing/blocked-duplicate", "%s: second STREAMS_BLOCKED(type %d) for limit %d", where, t, f.N)
			}
			seen[f.N] = true
		}
		if oparked > 0 && S >= a.limit[t] && !seen[a.limit[t]] && !a.closed {
			return vf.Bad("C15/outgoing/blocked-missing", "%s: %d caller(s) blocked by the limit %d (type %d) but no STREAMS_BLOCKED for it", where, oparked, a.limit[t], t)
		}
	}
	for _, f := range a.frames {
		if f.Kind != 'M' && f.Kind != 'B' {
			return vf.Bad("C15/frames/unknown", "%s: unexpected control frame type queued", where)
		}
	}
	return nil
}

func (a *arun) releaseAll() {
	for i := range a.ws {
		w := a.ws[i]
		a.r.mu.Lock()
		rel := w.released
		w.released = true
		a.r.mu.Unlock()
		if !rel {
			close(w.gate)
		}
	}
}

// runACase must be called inside a synctest bubble.
func runACase(c ACase) (v *vf.Verdict, a *arun) {
	progress.Add(1)
	a = &arun{c: c, cl: map[string]bool{}}
	a.r = newRT(Params{Persp: c.Persp, LBidi: c.L[0], LUni: c.L[1], TPBidi: c.M0[0], TPUni: c.M0[1]})
	for t := 0; t < 2; t++ {
		a.completed[t] = map[int64]bool{}
		a.limit[t] = c.M0[t]
		a.limits[t] = map[int64]bool{c.M0[t]: true}
	}
	defer func() {
		if p := recover(); p != nil {
			v = vf.Bad("C15/panic", "panic in concurrent-accept history: %v", p)
		}
		// let every goroutine end
		func() {
			defer func() { _ = recover() }()
			a.releaseAll()
			for _, w := range a.ws {
				w.cancel()
			}
			if !a.r.closed {
				a.r.closed = true
				a.r.sm.CloseWithError(errClosed)
			}
			synctest.Wait()
		}()
	}()
	for _, op := range c.Ops {
		if v = a.apply(op); v != nil {
			return v, a
		}
	}
	// final: paused callers continue; then everybody is cancelled and the rest is drained
	a.releaseAll()
	synctest.Wait()
	if v = a.audit("after releasing every paused caller"); v != nil {
		return v, a
	}
	a.final = true
	for i := range a.ws {
		a.cancelW(i)
	}
	synctest.Wait()
	if v = a.audit("after cancelling every caller"); v != nil {
		return v, a
	}
	if !a.closed {
		pre, cancel := context.WithCancel(context.Background())
		cancel()
		for t := 0; t < 2; t++ {
			first := firstIn(c.Persp, t)
			var got []int64
			n := a.opened[t] - int64(len(a.returnedSet('a', t)))
			for i := int64(0); i < n; i++ {
				var id int64
				var err error
				if t == 0 {
					s, e := a.r.sm.AcceptStream(pre)
					if err = e; e == nil {
						id = int64(s.StreamID())
					}
				} else {
					s, e := a.r.sm.AcceptUniStream(pre)
					if err = e; e == nil {
						id = int64(s.StreamID())
					}
				}
				if err != nil {
					return vf.Bad("C15/accept/blocked-with-stream", "final drain: Accept (type %d) returned %v although %d opened streams were never returned (got so far %v)", t, err, n-i, got), a
				}
				got = append(got, id)
			}
			var all []int64
			for id := range a.returnedSet('a', t) {
				all = append(all, id)
			}
			// the drained streams count as returned (a finished pseudo worker)
			a.r.mu.Lock()
			a.ws = append(a.ws, &aworker{kind: 'a', t: t, done: true, cancelled: true, gate: make(chan struct{}), cancel: func() {}, ids: got})
			a.r.mu.Unlock()
			all = sortedCopy(append(all, got...))
			for i, id := range all {
				if want := first + 4*int64(i); id != want {
					return vf.Bad("C15/accept/order", "final drain: all streams returned %v, position %d should be %d (the peer opened %d streams; each exactly once)", all, i, want, a.opened[t]), a
				}
			}
			for i := 1; i < len(got); i++ {
				if got[i] <= got[i-1] {
					return vf.Bad("C15/accept/order", "final drain: Accept returned %v, not in id order", got), a
				}
			}
		}
		a.closed = true
		a.r.closed = true
		a.r.sm.CloseWithError(errClosed)
		synctest.Wait()
		if v = a.audit("after the final CloseWithError"); v != nil {
			return v, a
		}
	}
	return nil, a
}

// ---------------------------------------------------------------------------------------------

func genACase(rt *rapid.T) ACase {
	x := rapid.Uint64().Draw(rt, "seed-a")
	y := rapid.Uint64().Draw(rt, "seed-b")
	return genACaseSeed(x*0x9e3779b97f4a7c15 ^ (y+0x632be59bd9b4e019)*0xd6e8feb86659fd93)
}

func genACaseSeed(seed uint64) ACase {
	t := &rng{s: seed}
	c := ACase{Persp: []int{persServer, persClient}[t.rg(0, 1)]}
	for i := 0; i < 2; i++ {
		c.L[i] = int64(t.rg(1, 6))
		c.M0[i] = int64(t.rg(0, 2))
	}
	focus := pick(t, "", 60, 25, 15) // incoming | outgoing | mixed
	ft := t.rg(0, 1)                  // the stream type most of the action is on
	typ := func() int {
		if t.rg(0, 4) == 0 {
			return 1 - ft
		}
		return ft
	}
	nw := 0
	var gatedW []int
	spawn := func(kind string) {
		op := AOp{K: kind, T: typ(), N: []int{1, 1, 1, 2, 2, 3}[t.rg(0, 5)]}
		if t.rg(0, 6) == 0 {
			op.G = t.rg(1, 2)
			gatedW = append(gatedW, nw)
		}
		if t.rg(0, 24) == 0 {
			op.Pre = true
		}
		c.Ops = append(c.Ops, op)
		nw++
	}
	skip := func() int { return []int{0, 0, 0, 0, 0, 1, 1, 2, 3}[t.rg(0, 8)] }
	fk := func() string {
		if t.rg(0, 5) == 0 {
			return "reset"
		}
		return ""
	}
	// opening burst: K callers park before anything arrives
	if t.rg(0, 9) < 8 {
		k := t.rg(1, 4)
		for i := 0; i < k; i++ {
			switch {
			case focus == 0:
				spawn("acc")
			case focus == 1:
				spawn("opn")
			default:
				spawn([]string{"acc", "opn"}[t.rg(0, 1)])
			}
		}
	}
	n := t.rg(3, 36)
	for i := 0; i < n; i++ {
		var w []int
		switch focus {
		case 0: //       acc frame old cmpl cancel cframe framec release opn max open cmax maxc close
			w = []int{18, 34, 4, 12, 7, 4, 4, 0, 2, 2, 1, 0, 0, 1}
		case 1:
			w = []int{2, 4, 0, 1, 8, 0, 0, 0, 24, 36, 4, 6, 6, 1}
		default:
			w = []int{12, 22, 3, 8, 7, 3, 3, 0, 12, 18, 2, 3, 3, 1}
		}
		if len(gatedW) > 0 {
			w[7] = 14
		}
		anyW := func() int {
			if nw == 0 {
				return 0
			}
			return t.rg(0, nw-1)
		}
		switch pick(t, "", w...) {
		case 0:
			spawn("acc")
		case 1:
			c.Ops = append(c.Ops, AOp{K: "frame", T: typ(), N: skip(), F: fk()})
		case 2:
			c.Ops = append(c.Ops, AOp{K: "old", T: typ(), N: t.rg(0, 7)})
		case 3:
			c.Ops = append(c.Ops, AOp{K: "complete", T: typ(), N: t.rg(0, 7)})
		case 4:
			c.Ops = append(c.Ops, AOp{K: "cancel", W: anyW()})
		case 5:
			c.Ops = append(c.Ops, AOp{K: "cframe", W: anyW(), T: typ(), N: skip(), F: fk()})
		case 6:
			c.Ops = append(c.Ops, AOp{K: "framec", W: anyW(), T: typ(), N: skip(), F: fk()})
		case 7:
			j := t.rg(0, len(gatedW)-1)
			c.Ops = append(c.Ops, AOp{K: "release", W: gatedW[j]})
			gatedW = append(gatedW[:j], gatedW[j+1:]...)
		case 8:
			spawn("opn")
		case 9:
			c.Ops = append(c.Ops, AOp{K: "max", T: typ(), N: []int{1, 1, 1, 1, 2, 2, 3, 0}[t.rg(0, 7)]})
		case 10:
			c.Ops = append(c.Ops, AOp{K: "open", T: typ()})
		case 11:
			c.Ops = append(c.Ops, AOp{K: "cmax", W: anyW(), T: typ(), N: t.rg(1, 2)})
		case 12:
			c.Ops = append(c.Ops, AOp{K: "maxc", W: anyW(), T: typ(), N: t.rg(1, 2)})
		default:
			c.Ops = append(c.Ops, AOp{K: "close"})
			i = n
		}
	}
	return c
}

func validACase(c ACase) bool {
	if c.Persp != persServer && c.Persp != persClient {
		return false
	}
	for i := 0; i < 2; i++ {
		if c.L[i] < 0 || c.L[i] > 64 || c.M0[i] < 0 || c.M0[i] > 64 {
			return false
		}
	}
	return len(c.Ops) <= 200
}

func runAOnce(c ACase) (v *vf.Verdict, a *arun) {
	var bv *vf.Verdict
	bv = bubble(func() { v, a = runACase(c) })
	if hung.Load() {
		return bv, nil
	}
	if v == nil {
		v = bv
	}
	return v, a
}

func minimiseA(c ACase, v *vf.Verdict) (ACase, *vf.Verdict) {
	best, bv := c, v
	for changed, rounds := true, 0; changed && rounds < 4; rounds++ {
		changed = false
		for i := len(best.Ops) - 1; i >= 0; i-- {
			cand := best
			cand.Ops = append(append([]AOp{}, best.Ops[:i]...), best.Ops[i+1:]...)
			// worker numbers follow the spawn order: renumber when a spawn goes away
			if k := best.Ops[i].K; k == "acc" || k == "opn" {
				idx := 0
				for _, op := range best.Ops[:i] {
					if op.K == "acc" || op.K == "opn" {
						idx++
					}
				}
				ok := true
				for j := range cand.Ops {
					switch cand.Ops[j].K {
					case "cancel", "release", "cframe", "framec", "cmax", "maxc":
						if cand.Ops[j].W == idx {
							ok = false
						} else if cand.Ops[j].W > idx {
							cand.Ops[j].W--
						}
					}
				}
				if !ok {
					continue
				}
			}
			for rep := 0; rep < 3; rep++ { // the scheduler has a say: accept a candidate that fails in one of three runs
				if nv, _ := runAOnce(cand); nv != nil && nv.Sig == v.Sig {
					best, bv, changed = cand, nv, true
					break
				}
				if hung.Load() {
					return best, bv
				}
			}
		}
	}
	return best, bv
}

var aClasses = []string{
	"two-parked-then-two-arrivals", "three-arrival-steps", "implicit-open-with-parked>=2", "more-streams-than-parked",
	"arrival-with-parked", "arrival-after-delete-with-parked", "stream-completed-before-accept", "stream-completed-after-accept",
	"frame-for-old-stream", "cancelled-while-parked", "cancelled-in-window", "opener-cancelled-while-parked",
	"race-cancel-then-frame", "race-frame-then-cancel", "race-cancel-then-max", "race-max-then-cancel",
	"window-released", "credit-in-steps", "credit-for-some", "credit-with-parked",
	"close-with-parked-acceptors>=2", "close-with-parked-openers>=2", "worker-reentered", "accept-after-lag",
}

func TestAcceptConcurrent(t *testing.T) {
	curT = t
	vf.ReplayRepeat = 40 // which of several woken goroutines runs first is the scheduler's choice
	vf.RunRapid(t, "accept-concurrent", genACase, func(c ACase, u *vf.Unit) *vf.Verdict {
		if !validACase(c) {
			return nil
		}
		v, a := runAOnce(c)
		if hung.Load() {
			return v
		}
		if v != nil {
			if !vf.ReplayMode() && !vf.IsKnown(v.Sig) {
				mc, mv := minimiseA(c, v)
				u.Report(mv, mc)
			}
			return v
		}
		mp, mo := max(a.maxParked[0], a.maxParked[1]), max(a.maxOPark[0], a.maxOPark[1])
		u.Class(fmt.Sprintf("acceptors-parked:%d", min(mp, 4)))
		u.Class(fmt.Sprintf("openers-parked:%d", min(mo, 4)))
		a.r.mu.Lock()
		for _, w := range a.ws {
			if len(w.ids) >= 2 {
				a.cl["worker-reentered"] = true
			}
		}
		a.r.mu.Unlock()
		for _, k := range aClasses {
			if a.cl[k] {
				u.Class(k)
			}
		}
		if c.Persp == persServer {
			u.Class("persp-server")
		} else {
			u.Class("persp-client")
		}
		if a.skipped > 0 {
			u.Class("had-skipped-op")
		}
		u.Class(fmt.Sprintf("gomaxprocs:%d", runtime.GOMAXPROCS(0)))
		nt := (mp >= 2 && a.cl["arrival-with-parked"]) || (mo >= 2 && a.cl["credit-with-parked"])
		if nt {
			sig := []byte{byte(c.Persp), byte(c.L[0]), byte(c.L[1]), byte(c.M0[0]), byte(c.M0[1])}
			for _, op := range c.Ops {
				sig = append(sig, op.K[0], op.K[len(op.K)-1], byte(op.T), byte(op.N), byte(op.W), byte(op.G))
				if op.F != "" {
					sig = append(sig, 'r')
				}
				if op.Pre {
					sig = append(sig, 'p')
				}
			}
			u.NonTrivial(sig)
		}
		return nil
	})
}

var _ = sort.Ints

// TestAcceptDbg runs one case given as JSON in C15A_CASE (or generated from C15A_SEED) and prints the verdict.
func TestAcceptDbg(t *testing.T) {
	curT = t
	var c ACase
	switch {
	case os.Getenv("C15A_CASE") != "":
		if err := json.Unmarshal([]byte(os.Getenv("C15A_CASE")), &c); err != nil {
			t.Fatal(err)
		}
	case os.Getenv("C15A_SEED") != "":
		var x, y uint64
		fmt.Sscanf(os.Getenv("C15A_SEED"), "%x,%x", &x, &y)
		c = genACaseSeed(x*0x9e3779b97f4a7c15 ^ (y+0x632be59bd9b4e019)*0xd6e8feb86659fd93)
	default:
		t.Skip("no case")
	}
	b, _ := json.Marshal(c)
	t.Logf("case %s", b)
	for i := 0; i < 20; i++ {
		if v, _ := runAOnce(c); v != nil {
			mc, mv := minimiseA(c, v)
			b, _ := json.Marshal(mc)
			t.Fatalf("run %d: %s: %s\nminimised: %s\n%s: %s", i, v.Sig, v.Detail, b, mv.Sig, mv.Detail)
		}
	}
}
