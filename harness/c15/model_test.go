package c15

// Reference model for C15: a pure, fully predictive description of what the streams map must do
// for every operation of the alphabet. It knows nothing about the implementation; the runtime
// (run_test.go) executes the same operation against quic.VerifStreamsMap and compares.
//
// Stream counts are used throughout (a "limit" is a number of streams); ids are derived with
// firstOut/firstIn. Stream types: 0 = bidirectional, 1 = unidirectional.

const (
	persServer = 1 // protocol.PerspectiveServer
	persClient = 2 // protocol.PerspectiveClient
)

const (
	phNormal = 0 // handshake complete (or server after the client's transport parameters)
	phEarly  = 1 // client using restored 0-RTT parameters; no peer frame can have been processed yet
	phRej1   = 2 // 0-RTT rejected (ResetFor0RTT done), the server's real parameters not yet applied
	phRej2   = 3 // ... parameters applied at handshake completion, UseResetMaps not yet called
)

const (
	maxStreamCount = int64(1) << 60
	maxStreamID    = int64(1)<<62 - 1 // largest id a varint can carry
)

// Params of one history.
type Params struct {
	Persp   int   `json:"persp"`   // 1 server, 2 client
	LBidi   int64 `json:"lbidi"`   // our limit on concurrently open incoming bidi streams (Config.MaxIncomingStreams)
	LUni    int64 `json:"luni"`    // same for uni streams
	TPBidi  int64 `json:"tpbidi"`  // peer's initial_max_streams_bidi (for ZeroRTT: the remembered value)
	TPUni   int64 `json:"tpuni"`   // peer's initial_max_streams_uni
	ZeroRTT bool  `json:"zerortt"` // client only: history starts in the 0-RTT phase
}

// Op is one operation of the alphabet.
//
//	open      T           OpenStream / OpenUniStream
//	opensync  T Pre       Open(Uni)StreamSync in a goroutine (Pre: context already cancelled)
//	accept    T Pre       Accept(Uni)Stream in a goroutine
//	cancel    W           cancel the context of sync call number W
//	frame     F ID        peer frame F in {stream, reset, stop, maxdata, blocked} naming stream ID
//	maxstreams T N        peer MAX_STREAMS
//	complete  ID          the stream reports completion (connection.onStreamCompleted -> DeleteStream)
//	tp        N N2        HandleTransportParameters (bidi, uni limits)
//	reset0rtt             ResetFor0RTT
//	usereset              UseResetMaps
//	close                 CloseWithError (connection closed for an unrelated reason)
//	cmax      W T N       race: cancel sync opener W and deliver MAX_STREAMS without letting W run in between
//	cframe    W ID        race: cancel blocked acceptor W and deliver a STREAM frame opening ID
type Op struct {
	K   string `json:"k"`
	T   int    `json:"t,omitempty"`
	F   string `json:"f,omitempty"`
	ID  int64  `json:"id,omitempty"`
	N   int64  `json:"n,omitempty"`
	N2  int64  `json:"n2,omitempty"`
	W   int    `json:"w,omitempty"`
	Pre bool   `json:"pre,omitempty"`
}

// Case is the replayable form of one history.
type Case struct {
	P   Params `json:"params"`
	Ops []Op   `json:"ops"`
}

func firstOut(persp, t int) int64 {
	var b int64
	if persp == persServer {
		b = 1
	}
	if t == 1 {
		b += 2
	}
	return b
}

func opposite(persp int) int {
	if persp == persServer {
		return persClient
	}
	return persServer
}

func firstIn(persp, t int) int64 { return firstOut(opposite(persp), t) }

func idType(id int64) int {
	if id%4 >= 2 {
		return 1
	}
	return 0
}

func idLocal(persp int, id int64) bool {
	byClient := id%2 == 0
	return byClient == (persp == persClient)
}

type waiterM struct {
	kind    byte // 'o' opener, 'a' acceptor
	t       int
	blocked bool
}

type outM struct {
	n           int64 // streams opened so far
	max         int64 // peer's limit (count)
	queue       []int // blocked OpenStreamSync callers, call order
	blockedSent map[int64]bool
	deleted     map[int64]bool
}

type inStreamM struct{ accepted, completed bool } // completed && accepted == released (gone)

type inM struct {
	L          int64
	opened     int64 // streams the peer opened so far (explicitly or implicitly)
	released   int64 // streams completed AND accepted
	adv        int64 // highest stream count advertised to the peer
	nextAccept int64
	st         []inStreamM
	acceptor   int // handle of the blocked acceptor, -1 if none
}

func (s inStreamM) released() bool { return s.accepted && s.completed }

type fexp struct {
	Kind byte // 'M' MAX_STREAMS, 'B' STREAMS_BLOCKED
	T    int
	N    int64
}

type wexp struct {
	id  int64
	err string
}

// exp is what the model requires the implementation to do for one operation.
type exp struct {
	skip       bool // operation not applicable in this state (precondition of a real caller not met)
	err        string
	id         int64
	blocked    bool
	frames     []fexp
	optFrames  []fexp
	wake       map[int]wexp
	created    []int64
	deliver    int64 // -2 not checked, -1 must reach no stream, >=0 must reach exactly this stream
	closeAfter bool  // peer violation: the connection closes with the returned error
}

// hint carries the outcome of the two race operations, where the Go scheduler legitimately decides.
type hint struct {
	wServed     bool // the cancelled caller still obtained a stream
	blockedSeen bool // a STREAMS_BLOCKED for the new limit was observed
}

type model struct {
	p       Params
	phase   int
	reset   bool
	closed  bool
	out     [2]*outM
	in      [2]*inM
	waiters []waiterM
	gen     int // generation of the maps (incremented by ResetFor0RTT)

	// bookkeeping for classes / non-triviality
	flags map[string]bool
}

func newOutM() *outM { return &outM{blockedSent: map[int64]bool{}, deleted: map[int64]bool{}} }
func newInM(l int64) *inM {
	return &inM{L: l, adv: l, acceptor: -1}
}

func newModel(p Params) *model {
	m := &model{p: p, flags: map[string]bool{}}
	m.initMaps()
	if p.ZeroRTT {
		m.phase = phEarly
	}
	// construction applies the (restored) transport parameters
	m.out[0].max = max(0, p.TPBidi)
	m.out[1].max = max(0, p.TPUni)
	return m
}

func (m *model) initMaps() {
	m.out = [2]*outM{newOutM(), newOutM()}
	m.in = [2]*inM{newInM(m.p.LBidi), newInM(m.p.LUni)}
}

func (m *model) flag(s string) { m.flags[s] = true }

func (m *model) framesAllowed() bool {
	return !m.closed && (m.phase == phNormal || m.phase == phRej2)
}

func (m *model) newWaiter(kind byte, t int) int {
	m.waiters = append(m.waiters, waiterM{kind: kind, t: t})
	return len(m.waiters) - 1
}

func (m *model) blockedFrame(o *outM, t int, e *exp) {
	if !o.blockedSent[o.max] {
		o.blockedSent[o.max] = true
		e.frames = append(e.frames, fexp{'B', t, o.max})
		m.flag("blocked-frame")
	}
}

// wakeAll: every blocked caller returns err (connection closed / 0-RTT rejected).
func (m *model) wakeAll(err string, e *exp) {
	for h := range m.waiters {
		if m.waiters[h].blocked {
			m.waiters[h].blocked = false
			e.wake[h] = wexp{-1, err}
		}
	}
	for t := 0; t < 2; t++ {
		m.out[t].queue = nil
		m.in[t].acceptor = -1
	}
}

// raise applies a new peer limit and serves blocked openers in call order.
func (m *model) raise(t int, n int64, e *exp) {
	o := m.out[t]
	if n <= o.max {
		m.flag("stale-maxstreams")
		return
	}
	if o.n >= o.max && (m.flags["open-at-limit"] || m.flags["open-blocked"]) {
		m.flag("out-credit-after-limit")
	}
	o.max = n
	if n >= maxStreamCount {
		m.flag("huge-maxstreams")
	}
	served := 0
	for len(o.queue) > 0 && o.n < o.max {
		h := o.queue[0]
		o.queue = o.queue[1:]
		id := firstOut(m.p.Persp, t) + 4*o.n
		o.n++
		m.waiters[h].blocked = false
		e.wake[h] = wexp{id, ""}
		e.created = append(e.created, id)
		served++
	}
	if served > 0 {
		m.flag("waiter-served")
	}
	if served >= 2 {
		m.flag("fifo-multi")
	}
	if len(o.queue) > 0 {
		m.blockedFrame(o, t, e)
		m.flag("credit-insufficient")
	}
}

// release: an incoming stream is both completed and accepted -> one more credit for the peer.
func (m *model) release(t int, e *exp) {
	in := m.in[t]
	in.released++
	if in.L+in.released > maxStreamCount {
		// a MAX_STREAMS frame cannot carry more than 2^60 (RFC 9000 s.19.11): nothing further to advertise
		m.flag("credit-capped")
		return
	}
	in.adv = in.L + in.released
	e.frames = append(e.frames, fexp{'M', t, in.adv})
	m.flag("credit-reissued")
}

func (m *model) takeNext(t int, e *exp) int64 {
	in := m.in[t]
	k := in.nextAccept
	in.nextAccept++
	in.st[k].accepted = true
	if in.st[k].completed {
		m.release(t, e)
		m.flag("deferred-credit")
	}
	return firstIn(m.p.Persp, t) + 4*k
}

// peerOpen handles a frame naming peer-initiated stream index k of type t.
// acceptCancelled: race op - the blocked acceptor was cancelled concurrently and did not take the stream.
func (m *model) peerOpen(t int, k int64, e *exp, acceptorGone bool) {
	in := m.in[t]
	id := firstIn(m.p.Persp, t) + 4*k
	if k+1 > in.adv {
		e.err = "stream-limit"
		e.closeAfter = true
		e.deliver = -1
		m.flag("limit-error")
		return
	}
	if k < in.opened {
		s := in.st[k]
		if s.completed {
			e.deliver = -1
			m.flag("deleted-frame-ignored")
			if !s.accepted {
				m.flag("deferred-frame-ignored")
			}
		} else {
			e.deliver = id
		}
		return
	}
	if k > in.opened {
		m.flag("implicit-open")
	}
	for j := in.opened; j <= k; j++ {
		in.st = append(in.st, inStreamM{})
		e.created = append(e.created, firstIn(m.p.Persp, t)+4*j)
	}
	in.opened = k + 1
	if in.opened == in.adv {
		m.flag("in-limit-reached")
	}
	e.deliver = id
	if in.acceptor >= 0 && !acceptorGone {
		h := in.acceptor
		in.acceptor = -1
		m.waiters[h].blocked = false
		e.wake[h] = wexp{m.takeNext(t, e), ""}
		m.flag("acceptor-woken")
	}
}

func recvType(f string) bool { return f == "stream" || f == "reset" || f == "blocked" }

func (m *model) frame(op Op, e *exp, acceptorGone bool) {
	id := op.ID
	t := idType(id)
	local := idLocal(m.p.Persp, id)
	rcv := recvType(op.F)
	if t == 1 && ((rcv && local) || (!rcv && !local)) {
		e.err = "stream-state"
		e.closeAfter = true
		e.deliver = -1
		m.flag("wrong-direction")
		return
	}
	if local {
		o := m.out[t]
		k := (id - firstOut(m.p.Persp, t)) / 4
		switch {
		case k >= o.n:
			e.err = "stream-state"
			e.closeAfter = true
			e.deliver = -1
			m.flag("never-opened-local")
		case o.deleted[k]:
			e.deliver = -1
			m.flag("deleted-frame-ignored")
		default:
			e.deliver = id
		}
	} else {
		k := (id - firstIn(m.p.Persp, t)) / 4
		m.peerOpen(t, k, e, acceptorGone)
	}
	if op.F == "blocked" && e.deliver >= 0 {
		e.deliver = -1 // STREAM_DATA_BLOCKED only validates the id
	}
}

// live reports whether stream id exists in the current maps and has not completed.
func (m *model) live(id int64) bool {
	if id < 0 {
		return false
	}
	t := idType(id)
	if idLocal(m.p.Persp, id) {
		k := (id - firstOut(m.p.Persp, t)) / 4
		return k < m.out[t].n && !m.out[t].deleted[k]
	}
	k := (id - firstIn(m.p.Persp, t)) / 4
	return k < m.in[t].opened && !m.in[t].st[k].completed
}

func (m *model) localErr() string {
	if m.reset {
		return "0rtt"
	}
	if m.closed {
		return "closed"
	}
	return ""
}

// step advances the model by one operation and returns the requirement on the implementation.
func (m *model) step(op Op, h hint) exp {
	e := exp{id: -1, deliver: -2, wake: map[int]wexp{}}
	if op.T < 0 || op.T > 1 {
		e.skip = true
		return e
	}
	switch op.K {
	case "open":
		if e.err = m.localErr(); e.err != "" {
			return e
		}
		o := m.out[op.T]
		if len(o.queue) > 0 || o.n >= o.max {
			e.err = "limit-reached"
			m.blockedFrame(o, op.T, &e)
			m.flag("open-at-limit")
			return e
		}
		e.id = firstOut(m.p.Persp, op.T) + 4*o.n
		o.n++
		e.created = []int64{e.id}
		if o.n == o.max {
			m.flag("out-limit-reached")
		}
	case "opensync":
		hd := m.newWaiter('o', op.T)
		if e.err = m.localErr(); e.err != "" {
			return e
		}
		if op.Pre {
			e.err = "canceled"
			m.flag("precancelled")
			return e
		}
		o := m.out[op.T]
		if len(o.queue) == 0 && o.n < o.max {
			e.id = firstOut(m.p.Persp, op.T) + 4*o.n
			o.n++
			e.created = []int64{e.id}
			if o.n == o.max {
				m.flag("out-limit-reached")
			}
			return e
		}
		e.blocked = true
		m.waiters[hd].blocked = true
		o.queue = append(o.queue, hd)
		m.blockedFrame(o, op.T, &e)
		m.flag("open-blocked")
		if len(o.queue) >= 2 {
			m.flag("queue>=2")
		}
	case "accept":
		in := m.in[op.T]
		if in.acceptor >= 0 {
			e.skip = true // generator keeps a single accept loop per stream type
			return e
		}
		hd := m.newWaiter('a', op.T)
		if e.err = m.localErr(); e.err != "" {
			return e
		}
		if in.nextAccept < in.opened {
			e.id = m.takeNext(op.T, &e)
			m.flag("accept-ready")
			return e
		}
		if op.Pre {
			e.err = "canceled"
			return e
		}
		e.blocked = true
		m.waiters[hd].blocked = true
		in.acceptor = hd
		m.flag("accept-blocked")
	case "cancel":
		if op.W < 0 || op.W >= len(m.waiters) {
			e.skip = true
			return e
		}
		w := &m.waiters[op.W]
		if !w.blocked {
			m.flag("cancel-after-return")
			return e
		}
		w.blocked = false
		e.wake[op.W] = wexp{-1, "canceled"}
		if w.kind == 'o' {
			o := m.out[w.t]
			for i, x := range o.queue {
				if x == op.W {
					o.queue = append(append([]int{}, o.queue[:i]...), o.queue[i+1:]...)
					if i < len(o.queue) {
						m.flag("cancel-not-last")
					}
					break
				}
			}
			m.flag("waiter-cancelled")
		} else {
			m.in[w.t].acceptor = -1
			m.flag("acceptor-cancelled")
		}
	case "frame":
		if !m.framesAllowed() || op.ID < 0 || op.ID > maxStreamID {
			e.skip = true
			return e
		}
		switch op.F {
		case "stream", "reset", "stop", "maxdata", "blocked":
		default:
			e.skip = true
			return e
		}
		if !idLocal(m.p.Persp, op.ID) {
			// harness bound: a single frame implicitly opens at most 64 streams (with a configured limit
			// of 2^60 the implementation would, as specified, create every lower stream)
			in := m.in[idType(op.ID)]
			if k := (op.ID - firstIn(m.p.Persp, idType(op.ID))) / 4; k >= in.opened+64 && k+1 <= in.adv {
				e.skip = true
				return e
			}
		}
		m.frame(op, &e, false)
		if e.closeAfter {
			m.closed = true
			m.wakeAll("closed", &e)
		}
	case "maxstreams":
		if !m.framesAllowed() || op.N < 0 || op.N > maxStreamCount {
			e.skip = true
			return e
		}
		m.raise(op.T, op.N, &e)
	case "complete":
		if m.closed || !(m.phase == phNormal || m.phase == phRej2) || !m.live(op.ID) {
			e.skip = true
			return e
		}
		t := idType(op.ID)
		if idLocal(m.p.Persp, op.ID) {
			m.out[t].deleted[(op.ID-firstOut(m.p.Persp, t))/4] = true
			m.flag("complete-outgoing")
			return e
		}
		in := m.in[t]
		k := (op.ID - firstIn(m.p.Persp, t)) / 4
		in.st[k].completed = true
		if in.st[k].accepted {
			m.release(t, &e)
			if k+1 < in.opened && !in.st[k+1].completed {
				m.flag("complete-out-of-order")
			}
		} else {
			m.flag("complete-before-accept")
		}
	case "tp":
		if m.closed || op.N < 0 || op.N2 < 0 || op.N > maxStreamCount || op.N2 > maxStreamCount {
			e.skip = true
			return e
		}
		switch m.phase {
		case phEarly: // 0-RTT accepted: the server must not reduce limits (ValidForUpdate)
			if op.N < m.out[0].max || op.N2 < m.out[1].max {
				e.skip = true
				return e
			}
			m.phase = phNormal
			m.flag("zero-rtt-accepted")
		case phRej1:
			m.phase = phRej2
		default:
			e.skip = true
			return e
		}
		m.raise(0, op.N, &e)
		m.raise(1, op.N2, &e)
	case "reset0rtt":
		if m.phase != phEarly || m.closed {
			e.skip = true
			return e
		}
		m.phase = phRej1
		m.reset = true
		m.gen++
		m.wakeAll("0rtt", &e)
		m.initMaps()
		m.flag("zero-rtt-reset")
	case "usereset":
		if m.phase != phRej2 || m.closed {
			e.skip = true
			return e
		}
		m.phase = phNormal
		m.reset = false
		m.flag("use-reset-maps")
	case "close":
		if m.closed {
			e.skip = true
			return e
		}
		m.closed = true
		m.wakeAll("closed", &e)
		m.flag("closed-locally")
	case "cmax":
		// cancel(W) immediately followed by MAX_STREAMS(T,N); W is a blocked opener of type T
		if !m.framesAllowed() || op.W < 0 || op.W >= len(m.waiters) || op.N > maxStreamCount {
			e.skip = true
			return e
		}
		w := &m.waiters[op.W]
		o := m.out[op.T]
		if !w.blocked || w.kind != 'o' || w.t != op.T || op.N <= o.max {
			e.skip = true
			return e
		}
		pos := -1
		for i, x := range o.queue {
			if x == op.W {
				pos = i
			}
		}
		credit := op.N - o.n
		m.flag("race-cancel-maxstreams")
		if h.wServed {
			if int64(pos) >= credit {
				// impossible: W can only be signalled once all callers before it were served
				e.wake[op.W] = wexp{-1, "canceled"}
				h.wServed = false
			} else {
				m.flag("race-w-served")
			}
		}
		wouldBlock := int64(len(o.queue)) > credit // STREAMS_BLOCKED if SetMaxStream still saw W queued
		if !h.wServed {
			w.blocked = false
			e.wake[op.W] = wexp{-1, "canceled"}
			o.queue = append(append([]int{}, o.queue[:pos]...), o.queue[pos+1:]...)
			m.flag("waiter-cancelled")
			if int64(pos) < credit {
				m.flag("race-w-cancelled-in-window")
			}
		}
		// the limit is raised; remaining callers served in order
		o.max = op.N
		for len(o.queue) > 0 && o.n < o.max {
			x := o.queue[0]
			o.queue = o.queue[1:]
			id := firstOut(m.p.Persp, op.T) + 4*o.n
			o.n++
			m.waiters[x].blocked = false
			e.wake[x] = wexp{id, ""}
			e.created = append(e.created, id)
			m.flag("waiter-served")
		}
		switch {
		case len(o.queue) > 0:
			o.blockedSent[o.max] = true
			e.frames = append(e.frames, fexp{'B', op.T, o.max})
		case wouldBlock:
			// W was still queued when the limit arrived: a STREAMS_BLOCKED for the new limit may have gone out
			e.optFrames = append(e.optFrames, fexp{'B', op.T, o.max})
			if h.blockedSeen {
				o.blockedSent[o.max] = true
			}
		}
	case "cframe":
		// cancel(W) immediately followed by a STREAM frame opening a new peer stream; W is the blocked acceptor
		if !m.framesAllowed() || op.W < 0 || op.W >= len(m.waiters) || op.ID < 0 {
			e.skip = true
			return e
		}
		t := idType(op.ID)
		in := m.in[t]
		if idLocal(m.p.Persp, op.ID) || in.acceptor != op.W {
			e.skip = true
			return e
		}
		k := (op.ID - firstIn(m.p.Persp, t)) / 4
		if k < in.opened || k+1 > in.adv {
			e.skip = true
			return e
		}
		m.flag("race-cancel-accept")
		if !h.wServed {
			m.waiters[op.W].blocked = false
			in.acceptor = -1
			e.wake[op.W] = wexp{-1, "canceled"}
			m.flag("acceptor-cancelled")
		}
		m.frame(Op{K: "frame", F: "stream", ID: op.ID}, &e, !h.wServed)
	default:
		e.skip = true
	}
	return e
}
