package c15

import (
	"pgregory.net/rapid"
)

// rng is a splitmix64 generator seeded from rapid draws. rapid's own integer generators favour
// small values and range boundaries (useful for data, harmful for weighted choices between
// action classes: the last alternative - a peer violation that ends the history - was drawn far
// too often), so the structure of a history is derived from this uniform stream instead. The
// stream is a pure function of the rapid draws, hence reproducible from the rapid seed.
type rng struct{ s uint64 }

func (r *rng) next() uint64 {
	r.s += 0x9e3779b97f4a7c15
	z := r.s
	z = (z ^ (z >> 30)) * 0xbf58476d1ce4e5b9
	z = (z ^ (z >> 27)) * 0x94d049bb133111eb
	return z ^ (z >> 31)
}

// rg returns a uniform integer in [lo, hi].
func (r *rng) rg(lo, hi int) int { return lo + int(r.next()%uint64(hi-lo+1)) }

func (r *rng) rg64(lo, hi int64) int64 { return lo + int64(r.next()%uint64(hi-lo+1)) }

func (r *rng) coin() bool { return r.next()&1 == 1 }

// The generator draws each operation from the state of a private copy of the reference model, so
// that boundary situations (at the limit, one past it, oldest/newest stream, head of the queue)
// are reached on purpose. Caller preconditions are honoured here (see unit.json "assumptions").

func genParams(t *rng) Params {
	p := Params{Persp: []int{persServer, persClient}[t.rg(0, 1)]}
	hi := 4
	if t.rg(0, 9) == 0 {
		hi = 16
	}
	p.LBidi = int64(t.rg(0, hi))
	p.LUni = int64(t.rg(0, hi))
	p.TPBidi = int64(t.rg(0, hi))
	p.TPUni = int64(t.rg(0, hi))
	if t.rg(0, 39) == 0 { // the largest limits the configuration accepts (validateConfig caps at 2^60)
		if t.coin() {
			p.LBidi = maxStreamCount - int64(t.rg(0, 2))
		} else {
			p.LUni = maxStreamCount - int64(t.rg(0, 2))
		}
	}
	if p.Persp == persClient {
		p.ZeroRTT = t.rg(0, 5) == 0
	}
	return p
}

func pick(t *rng, _ string, weights ...int) int {
	total := 0
	for _, w := range weights {
		total += w
	}
	x := t.rg(0, total-1)
	for i, w := range weights {
		if x < w {
			return i
		}
		x -= w
	}
	return len(weights) - 1
}

func (m *model) blockedOpeners() []int {
	var out []int
	for t := 0; t < 2; t++ {
		out = append(out, m.out[t].queue...)
	}
	return out
}

func (m *model) liveStreams() (incoming, outgoing []int64) {
	for t := 0; t < 2; t++ {
		in := m.in[t]
		for k := int64(0); k < in.opened; k++ {
			if !in.st[k].completed {
				incoming = append(incoming, firstIn(m.p.Persp, t)+4*k)
			}
		}
		o := m.out[t]
		lo := int64(0)
		if o.n > 64 {
			lo = o.n - 64
		}
		for k := lo; k < o.n; k++ {
			if !o.deleted[k] {
				outgoing = append(outgoing, firstOut(m.p.Persp, t)+4*k)
			}
		}
	}
	return
}

func (m *model) genFrame(t *rng) Op {
	op := Op{K: "frame"}
	op.F = []string{"stream", "reset", "stop", "maxdata", "blocked"}[pick(t, "fkind", 50, 14, 14, 11, 11)]
	rcv := recvType(op.F)
	p := m.p.Persp
	tt := t.rg(0, 1)
	inT := tt // type used when the target is a peer-initiated stream
	if !rcv {
		inT = 0 // send-side frames are only valid on bidirectional peer streams
	}
	outT := tt
	if rcv {
		outT = 0 // receive-side frames are only valid on bidirectional local streams
	}
	in := m.in[inT]
	o := m.out[outT]
	existingIn := func() int64 {
		if in.opened == 0 {
			return firstIn(p, inT) + 4*in.opened // falls back to "next"
		}
		lo := int64(0)
		if in.opened > 32 {
			lo = in.opened - 32
		}
		return firstIn(p, inT) + 4*t.rg64(lo, in.opened-1)
	}
	switch pick(t, "target", 26, 10, 5, 22, 16, 1) {
	case 0: // next peer stream (beyond the limit once the peer used up its credit: kept rare)
		if in.opened >= in.adv && t.rg(0, 29) != 0 {
			if in.opened == 0 {
				return m.genMaxStreams(t)
			}
			op.ID = existingIn()
		} else {
			op.ID = firstIn(p, inT) + 4*in.opened
		}
	case 1: // skip ids: lower ones are opened implicitly
		k := in.opened + int64(t.rg(1, 3))
		if k >= in.adv {
			k = in.adv - 1
		}
		if k < 0 {
			return m.genMaxStreams(t)
		}
		op.ID = firstIn(p, inT) + 4*k
	case 2: // exactly the last permitted stream
		if in.adv == 0 {
			return m.genMaxStreams(t)
		}
		if in.adv-in.opened > 16 {
			op.ID = firstIn(p, inT) + 4*(in.opened+int64(t.rg(0, 3)))
		} else {
			op.ID = firstIn(p, inT) + 4*(in.adv-1)
		}
	case 3: // a peer stream that exists or existed (live, completed-unaccepted, released)
		if in.opened == 0 && in.adv == 0 {
			return m.genMaxStreams(t)
		}
		op.ID = existingIn()
	case 4: // a local stream that exists or existed
		if o.n == 0 {
			return m.genMaxStreams(t)
		}
		lo := int64(0)
		if o.n > 32 {
			lo = o.n - 32
		}
		op.ID = firstOut(p, outT) + 4*t.rg64(lo, o.n-1)
	default: // a peer violation
		switch t.rg(0, 3) {
		case 3: // anything
			op.ID = int64(t.rg(0, 47))
		case 0: // beyond the advertised maximum
			op.ID = firstIn(p, inT) + 4*(in.adv+int64(t.rg(0, 2)))
		case 1: // local stream that was never opened
			op.ID = firstOut(p, outT) + 4*(o.n+int64(t.rg(0, 2)))
		default: // wrong direction
			if rcv {
				op.ID = firstOut(p, 1) + 4*int64(t.rg(0, 3))
			} else {
				op.ID = firstIn(p, 1) + 4*int64(t.rg(0, 3))
			}
		}
	}
	return op
}

func (m *model) genMaxStreams(t *rng) Op {
	op := Op{K: "maxstreams", T: t.rg(0, 1)}
	if len(m.out[op.T].queue) == 0 && len(m.out[1-op.T].queue) > 0 && t.rg(0, 3) != 0 {
		op.T = 1 - op.T
	}
	o := m.out[op.T]
	need := o.n + int64(len(o.queue))
	switch pick(t, "mmode", 36, 16, 10, 10, 2, 14, 12) {
	case 0:
		op.N = o.max + 1
	case 1:
		op.N = o.max + int64(t.rg(2, 4))
	case 2:
		op.N = o.max // duplicate
	case 3:
		op.N = t.rg64(0, o.max)
	case 4:
		op.N = maxStreamCount
	case 5:
		op.N = need // exactly enough for everyone waiting
	default:
		op.N = need - 1 // one short
	}
	if op.N < 0 {
		op.N = 0
	}
	if op.N > maxStreamCount {
		op.N = maxStreamCount
	}
	return op
}

func (m *model) genCancel(t *rng) Op {
	var blocked []int
	for h, w := range m.waiters {
		if w.blocked {
			blocked = append(blocked, h)
		}
	}
	if len(blocked) > 0 && t.rg(0, 9) != 0 {
		return Op{K: "cancel", W: blocked[t.rg(0, len(blocked)-1)]}
	}
	if len(m.waiters) == 0 {
		return Op{K: "opensync", T: t.rg(0, 1)}
	}
	return Op{K: "cancel", W: t.rg(0, len(m.waiters)-1)}
}

func (m *model) genAccept(t *rng) Op {
	tt := t.rg(0, 1)
	if m.in[tt].acceptor >= 0 {
		tt = 1 - tt
	}
	if m.in[tt].acceptor >= 0 {
		return Op{K: "cancel", W: m.in[tt].acceptor}
	}
	return Op{K: "accept", T: tt, Pre: t.rg(0, 15) == 0}
}

func (m *model) genOpenSync(t *rng) Op {
	tt := t.rg(0, 1)
	// build queues: prefer the type that is at its limit
	if m.out[tt].n < m.out[tt].max && m.out[1-tt].n >= m.out[1-tt].max && t.rg(0, 2) != 0 {
		tt = 1 - tt
	}
	return Op{K: "opensync", T: tt, Pre: t.rg(0, 15) == 0}
}

func (m *model) genComplete(t *rng) Op {
	in, out := m.liveStreams()
	var from []int64
	switch {
	case len(in) > 0 && (len(out) == 0 || t.rg(0, 9) < 7):
		from = in
	case len(out) > 0:
		from = out
	default:
		return m.genFrame(t)
	}
	var i int
	switch t.rg(0, 3) {
	case 0:
		i = 0
	case 1:
		i = len(from) - 1
	default:
		i = t.rg(0, len(from)-1)
	}
	return Op{K: "complete", ID: from[i]}
}

func (m *model) genRace(t *rng) Op {
	bo := m.blockedOpeners()
	var acc []int
	for tt := 0; tt < 2; tt++ {
		if h := m.in[tt].acceptor; h >= 0 && m.in[tt].opened < m.in[tt].adv {
			acc = append(acc, h)
		}
	}
	if len(bo) > 0 && (len(acc) == 0 || t.rg(0, 2) != 0) {
		w := bo[0]
		if t.rg(0, 2) == 0 {
			w = bo[t.rg(0, len(bo)-1)]
		}
		tt := m.waiters[w].t
		o := m.out[tt]
		if t.rg(0, 1) == 0 {
			w = o.queue[0]
		}
		n := max(o.max, o.n) + int64(t.rg(1, 3))
		return Op{K: "cmax", W: w, T: tt, N: min(n, maxStreamCount)}
	}
	if len(acc) > 0 {
		w := acc[t.rg(0, len(acc)-1)]
		tt := m.waiters[w].t
		in := m.in[tt]
		k := in.opened
		if in.adv-in.opened > 1 && t.coin() {
			k++
		}
		return Op{K: "cframe", W: w, ID: firstIn(m.p.Persp, tt) + 4*k}
	}
	return m.genOpenSync(t)
}

// genOp draws the next operation for the current model state.
func (m *model) genOp(t *rng) Op {
	if m.closed {
		// the connection is gone: only local calls remain meaningful
		switch pick(t, "closed-op", 3, 3, 3, 1) {
		case 0:
			return Op{K: "open", T: t.rg(0, 1)}
		case 1:
			return m.genOpenSync(t)
		case 2:
			return m.genAccept(t)
		default:
			return m.genCancel(t)
		}
	}
	switch m.phase {
	case phEarly:
		switch pick(t, "early-op", 25, 30, 10, 10, 12, 13) {
		case 0:
			return Op{K: "open", T: t.rg(0, 1)}
		case 1:
			return m.genOpenSync(t)
		case 2:
			return m.genCancel(t)
		case 3:
			return m.genAccept(t)
		case 4:
			return Op{K: "reset0rtt"}
		default:
			return Op{K: "tp", N: m.out[0].max + int64(t.rg(0, 2)), N2: m.out[1].max + int64(t.rg(0, 2))}
		}
	case phRej1:
		switch pick(t, "rej1-op", 15, 15, 10, 15, 45) {
		case 0:
			return Op{K: "open", T: t.rg(0, 1)}
		case 1:
			return m.genOpenSync(t)
		case 2:
			return m.genCancel(t)
		case 3:
			return m.genAccept(t)
		default:
			return Op{K: "tp", N: int64(t.rg(0, 4)), N2: int64(t.rg(0, 4))}
		}
	}
	w := []int{26, 10, 9, 16, 6, 12, 13, 6, 1, 0}
	if m.phase == phRej2 {
		w[9] = 12
	}
	switch pick(t, "op", w...) {
	case 0:
		return m.genFrame(t)
	case 1:
		return m.genMaxStreams(t)
	case 2:
		return Op{K: "open", T: t.rg(0, 1)}
	case 3:
		return m.genOpenSync(t)
	case 4:
		return m.genCancel(t)
	case 5:
		return m.genAccept(t)
	case 6:
		return m.genComplete(t)
	case 7:
		return m.genRace(t)
	case 8:
		if t.rg(0, 3) == 0 {
			return Op{K: "close"}
		}
		return m.genFrame(t)
	default:
		return Op{K: "usereset"}
	}
}

func genCase(rt *rapid.T) Case {
	a := rapid.Uint64().Draw(rt, "seed-a")
	b := rapid.Uint64().Draw(rt, "seed-b")
	d := rapid.Uint64().Draw(rt, "seed-c")
	return genCaseSeed(a*0x9e3779b97f4a7c15 ^ (b+0x632be59bd9b4e019)*0xd6e8feb86659fd93 ^ d<<32 ^ d>>32)
}

func genCaseSeed(seed uint64) Case {
	t := &rng{s: seed}
	c := Case{P: genParams(t)}
	m := newModel(c.P)
	n := t.rg(1, 80)
	for i := 0; i < n; i++ {
		op := m.genOp(t)
		h := hint{}
		if op.K == "cmax" || op.K == "cframe" {
			h.wServed = t.rg(0, 7) == 0
		}
		if e := m.step(op, h); e.skip {
			continue
		}
		c.Ops = append(c.Ops, op)
	}
	return c
}
