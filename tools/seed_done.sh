#!/bin/bash
# usage: tools/seed_done.sh <worktree> <name> <PROPERTY> <caught|missed> "<note>"
wt=$1; name=$2; pid=$3; res=$4; note=$5
cd /verif
python3 - "$name" "$pid" "$res" "$note" <<'PY'
import json,sys,os
name,pid,res,note=sys.argv[1:5]
d='/verif/seeded/'+name
m={}
if os.path.exists(d+'/meta.json'):
    try: m=json.load(open(d+'/meta.json'))
    except Exception as e: m={"raw_meta_error":str(e)}
m['property']=pid
m['verification']={"demo_confirmed":"fails with the patch applied, passes with it reverted (tools/seed_demo.sh)","check_run":"VERIF_REPO=<scratch worktree with patch> ./check %s --tier quick --no-evidence"%pid,"result":res,"note":note,"check_output":open(d+'/check_output.txt').read() if os.path.exists(d+'/check_output.txt') else ""}
json.dump(m,open(d+'/meta.json','w'),indent=1)
rd='/verif/seeded/README.md'
if not os.path.exists(rd):
    open(rd,'w').write("# Seeded changes\n\nEach directory holds a change written by an independent worker from the property text only (patch.diff), its demonstration, meta.json (what it needs to manifest, what was run) and the output of the property's check against it.\n\n| id | property | result | caught by / note |\n|---|---|---|---|\n")
open(rd,'a').write("| %s | %s | %s | %s |\n"%(name,pid,res,note.replace('|','/')))
PY
git -C /repo worktree remove --force $wt
echo done
