#!/bin/bash
# usage: tools/seed_eval.sh <worktree> <PROPERTY-ID> <seed-name> [extra check args]
# Runs the property's quick check against the worktree (which has the seeded patch applied) and stores the artefacts.
wt=$1; pid=$2; name=$3; shift 3
cd /verif
mkdir -p seeded/$name
( cd $wt && git diff -- . ':!SEED' > /verif/seeded/$name/patch.diff )
cp -r $wt/SEED/* seeded/$name/ 2>/dev/null
s=$(date +%s)
out=$(VERIF_REPO=$wt ./check $pid --tier quick --no-evidence "$@" 2>&1); rc=$?
e=$(date +%s)
echo "$out" | grep -E "violation|VIOLATION|INCONCLUSIVE|held on" | cut -c1-400 | head -6
echo "rc=$rc wall=$((e-s))s"
echo "$out" | grep -E "violation|VIOLATION|INCONCLUSIVE|held on" | cut -c1-600 | head -6 > seeded/$name/check_output.txt
echo "rc=$rc wall=$((e-s))s" >> seeded/$name/check_output.txt
