#!/bin/bash
# usage: tools/run_all.sh <tier> [seed] [extra flags...]  -- runs every claimed check, prints one line per check
tier=${1:-quick}; seed=${2:-1}; shift 2 || true
cd /verif
for id in $(python3 -c "import json;print(' '.join(c['property_id'] for c in json.load(open('MANIFEST.json'))['checks']))"); do
  s=$(date +%s)
  out=$(VERIF_SEED=$seed ./check $id --tier $tier "$@" 2>&1); rc=$?
  e=$(date +%s)
  echo "$id rc=$rc wall=$((e-s))s $(echo "$out" | grep -E 'VIOLATION|INCONCLUSIVE' | head -2 | tr '\n' ' ')"
done
