#!/usr/bin/env python3
"""Runs `go test -json` on the given /repo packages (guard off, default toolchain) and compares with BASELINE.json stable_pass."""
import json, subprocess, sys, os
pkgs = sys.argv[1:] or ["./..."]
env = {k: v for k, v in os.environ.items() if k not in ("GOFLAGS", "GOTOOLCHAIN", "GOPROXY", "GOSUMDB")}
base = json.load(open("/root/.vp/BASELINE.json"))
stable = set(base["stable_pass"])
p = subprocess.run(["go", "test", "-mod=mod", "-json", "-vet=off", "-count=1", "-timeout", "25m"] + pkgs, cwd="/repo", env=env, stdout=subprocess.PIPE, stderr=subprocess.STDOUT, text=True)
passed, failed, seen_pkgs = set(), set(), set()
for line in p.stdout.splitlines():
    try:
        e = json.loads(line)
    except Exception:
        continue
    if e.get("Package"):
        seen_pkgs.add(e["Package"])
    if e.get("Test"):
        k = e["Package"] + "::" + e["Test"]
        if e["Action"] == "pass":
            passed.add(k)
        elif e["Action"] == "fail":
            failed.add(k)
want = {s for s in stable if s.split("::")[0] in seen_pkgs}
missing = sorted(want - passed)
print("packages:", len(seen_pkgs), "stable tests expected:", len(want), "passed of those:", len(want & passed), "missing:", len(missing))
for m in missing[:40]:
    print("  NOT PASSED:", m, "(failed)" if m in failed else "(not run)")
sys.exit(1 if missing else 0)
