#!/usr/bin/env python3
"""Generates /verif/MANIFEST.json from units.json (claimed checks) and properties.jsonl."""
import json, os, subprocess
ROOT = os.path.dirname(os.path.dirname(os.path.abspath(__file__)))
import glob
units = {}
for _f in sorted(glob.glob(os.path.join(ROOT, "harness", "*", "unit.json"))):
    units.update(json.load(open(_f)))
props = [json.loads(l) for l in open(os.path.join(ROOT, "properties.jsonl"))]
hooks_commits = []
hc = os.path.join(ROOT, "hooks_commits.txt")
if os.path.exists(hc):
    hooks_commits = [l.split()[0] for l in open(hc) if l.strip() and not l.startswith("#")]
na_reasons = {}
nap = os.path.join(ROOT, "not_applicable.json")
if os.path.exists(nap):
    na_reasons = json.load(open(nap))
checks, na = [], []
for p in props:
    pid = p["id"]
    if pid in units and os.path.exists(os.path.join(ROOT, 'evidence', pid + '.json')):
        u = units[pid]
        checks.append({
            "property_id": pid,
            "quick_cmd": "./check %s --tier quick" % pid,
            "thorough_cmd": "./check %s --tier thorough" % pid,
            "evidence_file": "/verif/evidence/%s.json" % pid,
            "replay_cmd_template": "./check %s --replay {path}" % pid,
            "engine": u.get("engine", "rapid+driver"),
            "level_claimed": {"category": "exploration", "text": u.get("level_text", ""), "design_ref": "DESIGN.md section 4 " + pid},
            "level_note": u.get("level_note", "; ".join(u.get("assumptions", []))),
            "technique": u.get("technique", "property-based testing (rapid) against a reference model"),
        })
    else:
        na.append({"property_id": pid, "reason": na_reasons.get(pid, "check not built yet (work in progress); no claim is made")})
m = {
    "version": 1,
    "setup_cmd": "./check --setup",
    "hooks": {"guard": "verif", "enable": "go test -tags verif (set by ./check for every build)",
              "baseline_off_cmd": "cd /repo && go build -mod=mod ./... && go test -mod=mod -vet=off -count=1 -timeout 25m ./...",
              "source_commits": hooks_commits, "add_only": True},
    "engines": [
        {"name": "driver", "path": "/verif/check", "serves_properties": sorted(units), "kind_free_text": "python3 driver: builds the property's test binary from /repo's working tree with -tags verif, shards rapid/enumeration/fuzz units over the cores, merges stats, classifies failures against known_findings.json, writes evidence"},
        {"name": "harness", "path": "/verif/harness", "serves_properties": sorted(units), "kind_free_text": "Go module (rapid v1.3.0, go1.26.8 testing/synctest) nested under the repository's import path; one package per property"},
    ],
    "checks": checks,
    "not_applicable": na,
    "notes": "All checks are property-based tests / fuzzers with explicit oracles; see DESIGN.md. Exit 2 + INCONCLUSIVE line = could not decide (build failure, timeout), never a violation.",
}
json.dump(m, open(os.path.join(ROOT, "MANIFEST.json"), "w"), indent=1)
print("claimed:", [c["property_id"] for c in checks])
