#!/bin/bash
# usage: tools/seed_auto.sh <name e.g. c04-g> : derives property, package directory and test regex from the seed's demo and runs seed_both.sh
n=$1
wt=/tmp/seed-$n
[ -f $wt/SEED/demo_test.go ] || { echo "######## $n: no SEED/demo_test.go"; exit 3; }
pid=$(echo $n | cut -d- -f1 | tr a-z A-Z)
pkg=$(grep -m1 '^package ' $wt/SEED/demo_test.go | awk '{print $2}')
case $pkg in
  quic|quic_test) dir=. ;;
  http3|http3_test) dir=http3 ;;
  wire) dir=internal/wire ;;
  ackhandler) dir=internal/ackhandler ;;
  handshake) dir=internal/handshake ;;
  congestion) dir=internal/congestion ;;
  flowcontrol) dir=internal/flowcontrol ;;
  utils) dir=internal/utils ;;
  protocol) dir=internal/protocol ;;
  qerr) dir=internal/qerr ;;
  quicvarint) dir=quicvarint ;;
  self|self_test) dir=integrationtests/self ;;
  *) dir=. ;;
esac
re=$(grep -oE '^func (Test[A-Za-z0-9_]+)' $wt/SEED/demo_test.go | awk '{print $2}' | paste -sd'|')
echo "######## $n prop=$pid pkg=$dir re=^($re)\$"
/verif/tools/seed_both.sh $n $pid $dir "^($re)\$"
