#!/bin/bash
# usage: tools/seed_demo.sh <worktree> <pkgdir-relative> <demo-file> <RunRegex>
# confirms: demonstration fails with the patch applied and passes with it reverted (no git stash: it is shared by all worktrees)
wt=$1; pkg=$2; demo=$3; re=$4
cd $wt || exit 2
git diff -- . ':!SEED' > /tmp/seedpatch.$$.diff
cp SEED/$demo $pkg/zz_seed_demo_test.go
export GOFLAGS=-mod=mod GOPROXY=off GOSUMDB=off GOTOOLCHAIN=local
echo "--- with patch:"; go1.26.8 test -vet=off -count=1 -run "$re" ./$pkg 2>&1 | tail -4
git apply -R /tmp/seedpatch.$$.diff || { echo "cannot revert"; exit 2; }
echo "--- without patch:"; go1.26.8 test -vet=off -count=1 -run "$re" ./$pkg 2>&1 | tail -3
git apply /tmp/seedpatch.$$.diff
rm -f $pkg/zz_seed_demo_test.go /tmp/seedpatch.$$.diff
git status --short | head -5
