#!/bin/bash
# usage: tools/seed_demo.sh <worktree> <pkgdir-relative> <demo-file> <RunRegex>
# confirms: demonstration fails with the patch applied and passes with it reverted
wt=$1; pkg=$2; demo=$3; re=$4
cd $wt || exit 2
cp SEED/$demo $pkg/zz_seed_demo_test.go
export GOFLAGS=-mod=mod GOPROXY=off GOSUMDB=off GOTOOLCHAIN=local
echo "--- with patch:"; go1.26.8 test -vet=off -count=1 -run "$re" ./$pkg 2>&1 | tail -4
git stash -q -- . ':!SEED' ':!*zz_seed_demo_test.go' 2>/dev/null || git stash -q
cp SEED/$demo $pkg/zz_seed_demo_test.go 2>/dev/null
echo "--- without patch:"; go1.26.8 test -vet=off -count=1 -run "$re" ./$pkg 2>&1 | tail -3
git stash pop -q
rm -f $pkg/zz_seed_demo_test.go
git status --short | head -5
