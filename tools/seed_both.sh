#!/bin/bash
# usage: tools/seed_both.sh <name e.g. c04-b> <PROPERTY> <pkgdir> <RunRegex>
n=$1; pid=$2; pkg=$3; re=$4
up=$(echo $n | sed "s/^c/C/")
# bring the scratch worktree to /repo's current HEAD (fix / hook commits may have landed since it was created), keeping the patch
( cd /tmp/seed-$n && git diff -- . ':!SEED' > /tmp/seedrb.$$.diff && git checkout -q -f --detach $(git -C /repo rev-parse HEAD) && git apply /tmp/seedrb.$$.diff && rm -f /tmp/seedrb.$$.diff ) || { echo "rebase of the seed onto HEAD failed"; exit 2; }
echo "=== $up demo"; /verif/tools/seed_demo.sh /tmp/seed-$n $pkg demo_test.go "$re" 2>&1 | grep -E '^(---|ok|FAIL|\s+[a-z_]+_test.go)' | head -8
echo "=== $up check"; /verif/tools/seed_eval.sh /tmp/seed-$n $pid $up 2>&1 | tail -5
